package rules

import (
	"fmt"
	"go/constant"
	"go/token"
	"go/types"
	"sort"
	"strings"

	"golang.org/x/tools/go/ssa"

	"verif/internal/core"
	"verif/internal/load"
)

// c08Endings: S6 and S7 — why a supervisor shuts down, and when it may terminate itself.
//
// S6: a state machine enters its shutdown mode only for one of the documented causes: the exit
// came from a process that is not one of its children, a significant child terminated, or the
// restart intensity was exceeded. Every path to a "enter shutdown" store passes the edge of one
// of these tests (the cause edges jointly cut the site off from the entry).
//
// S7: the action "terminate the supervisor" is produced only on an edge that found nobody running
// (len(runningChildren) == 0) or nobody left to wait for (len(wait) == 0).
func c08Endings(p *load.Program, r *core.Report, machines []*ssa.Function) {
	rule6 := "C08.S6 shutdown-causes"
	rule7 := "C08.S7 self-termination-only-when-empty"
	r.Floor("C08.S15 empty-supervisor-terminates-only-with-autoshutdown", 10)
	r.Floor(rule6, 9)
	r.Floor(rule7, 15)
	actTerminate := int64(-1)
	if pk := p.Pkg("act"); pk != nil {
		if o, ok := pk.Types.Scope().Lookup("supActionTerminate").(*types.Const); ok {
			actTerminate, _ = constInt64(o)
		}
	}
	if actTerminate < 0 {
		r.Unk(rule7, "C08.S7|const", "", "", "supActionTerminate resolves", "not found")
		return
	}
	for _, f := range machines {
		fn := fname(f)
		// ---- cause edges
		var causes []Edge
		var names []string
		eachInstr(f, func(in ssa.Instruction) {
			switch x := in.(type) {
			case *ssa.Phi:
				// "found": a bool phi that becomes true on the path that clears the terminated child's pid
				if b, ok := x.Type().Underlying().(*types.Basic); !ok || b.Kind() != types.Bool {
					return
				}
				hasTrue := false
				for _, e := range x.Edges {
					if v, okb := constBool(e); okb && v {
						hasTrue = true
					}
				}
				if !hasTrue || !clearsPid(f) {
					return
				}
				_, fls, _ := boolEdges(x)
				if len(fls) > 0 {
					causes = append(causes, fls...)
					names = append(names, "exit from a non-child")
				}
			case *ssa.Extract:
				// found := lookup in the spec map (simple one for one)
				if lk, ok := x.Tuple.(*ssa.Lookup); ok && lk.CommaOk && x.Index == 1 {
					if _, path, okp := fieldPath(lk.X); okp && len(path) > 0 && path[len(path)-1] == "spec" {
						_, fls, _ := boolEdges(x)
						if len(fls) > 0 {
							causes = append(causes, fls...)
							names = append(names, "exit from a non-child")
						}
					}
				}
				// exceeded := second result of the intensity check
				if c, ok := x.Tuple.(*ssa.Call); ok && callsNamed(c, "supCheckRestartIntensity") && x.Index == 1 {
					t, _, _ := boolEdges(x)
					if len(t) > 0 {
						causes = append(causes, t...)
						names = append(names, "restart intensity exceeded")
					}
				}
			case *ssa.UnOp:
				if x.Op == token.MUL {
					if _, path, okp := fieldPath(x); okp && len(path) > 0 && path[len(path)-1] == "Significant" {
						t, _, _ := boolEdges(x)
						if len(t) > 0 {
							causes = append(causes, t...)
							names = append(names, "significant child")
						}
					}
				}
			}
		})
		seq := 0
		eachInstr(f, func(in ssa.Instruction) {
			st, ok := in.(*ssa.Store)
			if !ok {
				return
			}
			_, fl := fieldOwner(st.Addr)
			enter := false
			if fl == "shutdown" {
				if b, ok := constBool(st.Val); ok && b {
					enter = true
				}
			}
			if fl == "mode" {
				if c, ok := constInt(st.Val); ok && c == 3 {
					enter = true
				}
			}
			if !enter {
				return
			}
			seq++
			key := fmt.Sprintf("C08.S6|%s|enter-shutdown#%d", fn, seq)
			inst := "the supervisor starts shutting down only because of a non-child exit, a significant child, or exceeded restart intensity"
			if len(causes) > 0 && edgesDominate(causes, in) {
				r.OK(rule6, key, fn, p.Pos(in.Pos()), inst, "every path passes a cause edge ("+strings.Join(uniq(names), ", ")+")")
			} else {
				r.Bad(rule6, key, fn, p.Pos(in.Pos()), inst, "a path reaches this shutdown without any of the documented causes: the supervisor takes all children down after an ordinary child termination")
			}
		})
		// ---- S7
		var empties []Edge
		eachInstr(f, func(in ssa.Instruction) {
			b, ok := in.(*ssa.BinOp)
			if !ok {
				return
			}
			es := leqEdges(b, func(v ssa.Value) bool {
				return isLenCallOf(v, func(x ssa.Value) bool {
					t := x.Type().Underlying()
					switch tt := t.(type) {
					case *types.Slice:
						return namedOf(tt.Elem()) == "gen.PID"
					case *types.Map:
						return namedOf(tt.Key()) == "gen.PID"
					}
					return false
				})
			}, 0)
			empties = append(empties, es...)
		})
		seq = 0
		eachInstr(f, func(in ssa.Instruction) {
			st, ok := in.(*ssa.Store)
			if !ok {
				return
			}
			own, fl := fieldOwner(st.Addr)
			if own == nil || own.Obj().Name() != "supAction" || fl != "do" {
				return
			}
			if c, okc := constInt(st.Val); !okc || c != actTerminate {
				return
			}
			seq++
			key := fmt.Sprintf("C08.S7|%s|terminate#%d", fn, seq)
			inst := "the supervisor terminates itself only when no child is running / none is left to wait for"
			if len(empties) > 0 && edgesDominate(empties, in) {
				r.OK(rule7, key, fn, p.Pos(in.Pos()), inst, "dominated by an emptiness edge of the running / wait set")
				// S15: ... and for a reason: the exit of a non-child, a significant child, the shutdown in
				// progress, the exceeded intensity — or, merely because nobody is left, only with auto shutdown on
				rule15 := "C08.S15 empty-supervisor-terminates-only-with-autoshutdown"
				key15 := fmt.Sprintf("C08.S15|%s|terminate#%d", fn, seq)
				inst15 := "a supervisor left without running children terminates itself only for a cause or when auto shutdown is enabled"
				cause := ""
				eachInstr(f, func(x ssa.Instruction) {
					if cause != "" {
						return
					}
					switch v := x.(type) {
					case *ssa.UnOp:
						if v.Op != token.MUL {
							return
						}
						_, fl := fieldOwner(v.X)
						switch fl {
						case "Significant", "autoshutdown", "shutdown":
							if t, _, _ := boolEdges(v); len(t) > 0 && edgesDominate(t, in) {
								cause = fl
							}
						case "mode":
							if refs := v.Referrers(); refs != nil {
								for _, rf := range *refs {
									if b, ok := rf.(*ssa.BinOp); ok && b.Op == token.EQL {
										if c, okc := constInt(b.Y); okc && c == 3 {
											if t, _, _ := boolEdges(b); len(t) > 0 && edgesDominate(t, in) {
												cause = "shutdown mode"
											}
										}
									}
								}
							}
						}
					case *ssa.Phi:
						// a local flag: constants merged through (loop-carried) phis
						var flagOnly func(x ssa.Value, seen map[ssa.Value]bool) bool
						flagOnly = func(x ssa.Value, seen map[ssa.Value]bool) bool {
							if _, ok := constBool(x); ok {
								return true
							}
							ph, ok := x.(*ssa.Phi)
							if !ok {
								return false
							}
							if seen[ph] {
								return true
							}
							seen[ph] = true
							for _, e := range ph.Edges {
								if !flagOnly(e, seen) {
									return false
								}
							}
							return true
						}
						allConst := v.Type().String() == "bool" && flagOnly(v, map[ssa.Value]bool{})
						if allConst {
							if _, fl, _ := boolEdges(v); len(fl) > 0 && edgesDominate(fl, in) {
								cause = "exit of a process that is not a child"
							}
						}
					case *ssa.Extract:
						if c, ok := v.Tuple.(*ssa.Call); ok && callsNamed(c, "supCheckRestartIntensity") && v.Index == 1 {
							if t, _, _ := boolEdges(v); len(t) > 0 && edgesDominate(t, in) {
								cause = "restart intensity exceeded"
							}
						}
					}
				})
				if cause != "" {
					r.OK(rule15, key15, fn, p.Pos(in.Pos()), inst15, "cause: "+cause)
				} else {
					r.Bad(rule15, key15, fn, p.Pos(in.Pos()), inst15, "the Terminate action is produced merely because no child is running, without consulting the auto shutdown option: with DisableAutoShutdown the supervisor is documented to keep running with no children (they can be started again with StartChild)")
				}
			} else {
				r.Bad(rule7, key, fn, p.Pos(in.Pos()), inst, "the Terminate action is produced on a path that did not find the running set (or the wait set) empty: the supervisor exits while children run and leaves them to their parent-exit")
			}
		})
	}
}

func constInt64(o *types.Const) (int64, bool) {
	if o == nil {
		return 0, false
	}
	return constant.Int64Val(constant.ToInt(o.Val()))
}

// clearsPid: the function stores into a field named pid (the terminated child's slot is emptied).
func clearsPid(f *ssa.Function) bool {
	found := false
	eachInstr(f, func(in ssa.Instruction) {
		if st, ok := in.(*ssa.Store); ok {
			if _, fl := fieldOwner(st.Addr); fl == "pid" {
				found = true
			}
		}
	})
	return found
}

// c08Bookkeeping: S8 and S9.
//
// S8: the terminated child's slot is emptied where it is recognised: in the block that sets the
// "this is my child" flag, the spec's pid is overwritten with the zero PID (one-for-one and
// all/rest-for-one); the simple-one-for-one machine deletes the pid from its table on entry.
//
// S9 (all/rest-for-one): the restart position is the index of the terminated child itself, is set
// only for rest-for-one, is reset to 0 when the restart begins, and the children to stop are
// visited from the last spec down to that position.
func c08Bookkeeping(p *load.Program, r *core.Report, machines []*ssa.Function) {
	rule8 := "C08.S8 terminated-slot-cleared"
	rule9 := "C08.S9 restart-position"
	r.Floor(rule8, 3)
	r.Floor(rule9, 3)
	for _, f := range machines {
		fn := fname(f)
		key := "C08.S8|" + fn
		inst := "the slot of the child that terminated is emptied before the strategy is applied"
		ok := false
		how := ""
		// (a) delete(s.pids, pid) dominating every return
		eachInstr(f, func(in ssa.Instruction) {
			cc := callCommon(in)
			if cc == nil {
				return
			}
			if b, isB := cc.Value.(*ssa.Builtin); isB && b.Name() == "delete" {
				if _, path, okp := fieldPath(cc.Args[0]); okp && len(path) > 0 && path[len(path)-1] == "pids" && instrDominatesAllReturns(in, f) {
					ok, how = true, "delete(pids, pid) on entry"
				}
			}
		})
		// (b) zero store to spec.pid in the block that feeds true into the found phi
		if !ok {
			eachInstr(f, func(in ssa.Instruction) {
				ph, isPhi := in.(*ssa.Phi)
				if !isPhi {
					return
				}
				if b, isB := ph.Type().Underlying().(*types.Basic); !isB || b.Kind() != types.Bool {
					return
				}
				for i, e := range ph.Edges {
					if v, okb := constBool(e); !okb || !v {
						continue
					}
					blk := ph.Block().Preds[i]
					for _, i2 := range blk.Instrs {
						st, isSt := i2.(*ssa.Store)
						if !isSt {
							continue
						}
						if _, fl := fieldOwner(st.Addr); fl != "pid" {
							continue
						}
						if isZeroValue(st.Val) {
							ok, how = true, "spec.pid = zero PID in the block that recognises the child"
						}
					}
				}
			})
		}
		if ok {
			r.OK(rule8, key, fn, p.Pos(f.Pos()), inst, how)
		} else {
			r.Bad(rule8, key, fn, p.Pos(f.Pos()), inst, "the terminated child's pid stays recorded: the supervisor believes it is still running (it is skipped by the start loop, StartChild reports it as running, it is sent exits)")
		}
	}
	// ---- S9 on the all/rest-for-one machine
	var arfo *ssa.Function
	for _, f := range machines {
		if strings.Contains(fname(f), "supARFO") {
			arfo = f
		}
	}
	if arfo == nil {
		r.Unk(rule9, "C08.S9|machine", "", "", "all/rest-for-one machine found", "not found")
		return
	}
	fn := fname(arfo)
	{
		key := "C08.S9|" + fn + "|position"
		inst := "the restart position is the terminated child's own index, set for rest-for-one only (all-for-one restarts from 0)"
		var probs []string
		var intensity ssa.Instruction
		eachInstr(arfo, func(in ssa.Instruction) {
			if callsNamed(in, "supCheckRestartIntensity") {
				intensity = in
			}
		})
		n := 0
		eachInstr(arfo, func(in ssa.Instruction) {
			st, ok := in.(*ssa.Store)
			if !ok {
				return
			}
			if _, fl := fieldOwner(st.Addr); fl != "restartI" {
				return
			}
			if c, okc := constInt(st.Val); okc {
				if c != 0 {
					probs = append(probs, fmt.Sprintf("restart position set to the constant %d at %s", c, p.Pos(st.Pos())))
				}
				return
			}
			n++
			// the value is the index of the matched child: a phi (or range index), not arithmetic on it
			switch st.Val.(type) {
			case *ssa.Phi, *ssa.Extract:
			default:
				probs = append(probs, "the restart position at "+p.Pos(st.Pos())+" is computed from the child's index instead of being that index: the terminated child (or its predecessor) falls outside the restarted range")
			}
			if intensity != nil && instrReachable(intensity, st) {
				// strategy activation: only for rest-for-one
				guarded := false
				eachInstr(arfo, func(i2 ssa.Instruction) {
					ld, ok := i2.(*ssa.UnOp)
					if !ok || ld.Op != token.MUL {
						return
					}
					if _, path, okp := fieldPath(ld); okp && len(path) > 0 && path[len(path)-1] == "rest" {
						t, _, _ := boolEdges(ld)
						if len(t) > 0 && edgesDominate(t, st) {
							guarded = true
						}
					}
				})
				if !guarded {
					probs = append(probs, "the restart position is set at "+p.Pos(st.Pos())+" without being on the rest-for-one edge: all-for-one restarts only part of the children (or rest-for-one all of them)")
				}
			}
		})
		if n == 0 {
			probs = append(probs, "the restart position is never set from the terminated child's index")
		}
		if len(probs) > 0 {
			r.Bad(rule9, key, fn, p.Pos(arfo.Pos()), inst, strings.Join(uniq(probs), "; "))
		} else {
			r.OK(rule9, key, fn, p.Pos(arfo.Pos()), inst, fmt.Sprintf("%d store(s) of the child's index, the strategy one under the rest-for-one edge", n))
		}
	}
	// order of termination / start helpers
	for _, spec := range []struct{ name, want string }{{"childrenForTermination", "reverse"}, {"childForStart", "forward"}} {
		g := p.Func("act", "supARFO", spec.name)
		key := "C08.S9|" + spec.name
		inst := map[string]string{"reverse": "children are stopped from the last spec down to the restart position", "forward": "children are started in spec order from the restart position"}[spec.want]
		if g == nil {
			r.Unk(rule9, key, "", "", inst, "function not found")
			continue
		}
		dir, why := specWalkDirection(g)
		usesPos := false
		eachInstr(g, func(in ssa.Instruction) {
			if ld, ok := in.(*ssa.UnOp); ok && ld.Op == token.MUL {
				if _, path, okp := fieldPath(ld); okp && len(path) > 0 && path[len(path)-1] == "restartI" {
					usesPos = true
				}
			}
		})
		switch {
		case dir == "":
			r.Unk(rule9, key, fname(g), p.Pos(g.Pos()), inst, "the direction in which the spec list is walked is not recognised: "+why)
		case dir != spec.want:
			r.Bad(rule9, key, fname(g), p.Pos(g.Pos()), inst, "the spec list is walked "+dir+" ("+why+")")
		case !usesPos:
			r.Bad(rule9, key, fname(g), p.Pos(g.Pos()), inst, "the restart position is not consulted: children before the terminated one are restarted as well (rest-for-one)")
		default:
			r.OK(rule9, key, fname(g), p.Pos(g.Pos()), inst, why)
		}
	}
}

// c08Stopping: S10 and S11.
//
// S10 (all/rest-for-one): while the machine is stopping a group (mode 2) every child termination
// is compared with the restart position before the machine decides to keep waiting or to start:
// every path from the mode==2 edge to a return passes the test "index of this child < restart
// position" (a child that dies in front of the range must pull the range forward, otherwise a
// Permanent child stays down).
//
// S11: the state machines do not give up on an event: every explicit panic in a method of a
// strategy type is a stated belief "cannot happen"; each must be in the table of beliefs confirmed
// by reading, identified by function and guard — a new or differently guarded panic is reported.
func c08Stopping(p *load.Program, r *core.Report, machines []*ssa.Function) {
	rule10 := "C08.S10 stopping-phase-tracks-terminations"
	rule11 := "C08.S11 no-unlisted-panic"
	r.Floor(rule10, 1)
	r.Floor(rule11, 4)
	var arfo *ssa.Function
	for _, f := range machines {
		if strings.Contains(fname(f), "supARFO") {
			arfo = f
		}
	}
	if arfo == nil {
		r.Unk(rule10, "C08.S10|machine", "", "", "all/rest-for-one machine found", "not found")
	} else {
		fn := fname(arfo)
		key := "C08.S10|" + fn
		inst := "in the stopping phase every child termination is compared with the restart position before the machine waits on or starts anything"
		// mode == 2 true edges
		var starts []Point
		eachInstr(arfo, func(in ssa.Instruction) {
			b, ok := in.(*ssa.BinOp)
			if !ok || b.Op != token.EQL {
				return
			}
			if c, okc := constInt(b.Y); !okc || c != 2 {
				return
			}
			if _, path, okp := fieldPath(b.X); !okp || len(path) == 0 || path[len(path)-1] != "mode" {
				return
			}
			t, _, _ := boolEdges(b)
			for _, e := range t {
				starts = append(starts, Point{e.To(), 0})
			}
		})
		isCmp := func(in ssa.Instruction) bool {
			b, ok := in.(*ssa.BinOp)
			if !ok || (b.Op != token.LSS && b.Op != token.GTR && b.Op != token.LEQ && b.Op != token.GEQ) {
				return false
			}
			isPos := func(v ssa.Value) bool {
				_, path, okp := fieldPath(v)
				return okp && len(path) > 0 && path[len(path)-1] == "restartI"
			}
			return isPos(b.X) || isPos(b.Y)
		}
		switch {
		case len(starts) == 0:
			r.Unk(rule10, key, fn, p.Pos(arfo.Pos()), inst, "no test of the mode against the stopping phase (2)")
		default:
			if hit := reaches(starts, isCmp, isReturn); hit != nil {
				r.Bad(rule10, key, fn, p.Pos(hit.Pos()), inst, "the return at "+p.Pos(hit.Pos())+" is reached in the stopping phase without comparing the terminated child's index with the restart position: a child that terminates in front of the range being restarted is forgotten (a Permanent child stays down)")
			} else {
				r.OK(rule10, key, fn, p.Pos(arfo.Pos()), inst, "every path of the stopping phase passes the comparison with the restart position")
			}
		}
	}
	// ---- S11
	beliefs := map[string]string{
		"childStarted|Name!=Name":  "the spec index travels inside the action the machine produced itself; a mismatch means memory corruption",
		"childForStart|pid!=zero":  "every running child of the range was put into the wait set before the start phase begins",
		"childForStart|after-loop": "the range always contains the enabled child whose termination activated the strategy",
	}
	for _, f := range funcsOfPkgs(p, "act") {
		rv := root(f).Signature.Recv()
		if rv == nil {
			continue
		}
		n := namedOf(rv.Type())
		if n != "act.supOFO" && n != "act.supARFO" && n != "act.supSOFO" {
			continue
		}
		seq := map[string]int{}
		eachInstr(f, func(in ssa.Instruction) {
			pn, ok := in.(*ssa.Panic)
			if !ok || pn.Pos() == token.NoPos {
				return
			}
			// only explicit panics: the operand is built from a package-level error or a string
			if _, isMk := pn.X.(*ssa.MakeInterface); !isMk {
				if _, isCI := pn.X.(*ssa.ChangeInterface); !isCI {
					return
				}
			}
			sig := panicGuard(pn)
			id := f.Name() + "|" + sig
			seq[id]++
			key := fmt.Sprintf("C08.S11|%s|%s#%d", fname(f), sig, seq[id])
			inst := "an explicit panic in a supervisor state machine is a confirmed 'cannot happen'"
			if why, ok := beliefs[id]; ok && why != "" {
				r.OK(rule11, key, fname(f), p.Pos(pn.Pos()), inst, "listed belief: "+why)
			} else {
				r.Bad(rule11, key, fname(f), p.Pos(pn.Pos()), inst, "this panic (guard: "+sig+") is not in the list of beliefs confirmed by reading: if the guarded situation can occur — e.g. two children terminating close together — the supervisor process dies with reason panic and nothing is restarted")
			}
		})
	}
}

// panicGuard describes the condition under which a panic block is entered: the comparison of the
// dominating branch in terms of field names, or "after-loop" when the block follows a loop exit.
func panicGuard(pn *ssa.Panic) string {
	b := pn.Block()
	if len(b.Preds) != 1 {
		return "merge"
	}
	pr := b.Preds[0]
	iff, ok := pr.Instrs[len(pr.Instrs)-1].(*ssa.If)
	if !ok {
		return "unconditional"
	}
	name := func(v ssa.Value) string {
		if c, ok := v.(*ssa.Const); ok {
			if c.Value == nil {
				return "zero"
			}
			return c.Value.String()
		}
		if isLenCallOf(v, func(ssa.Value) bool { return true }) {
			_, path, _ := fieldPath(v.(*ssa.Call).Common().Args[0])
			if len(path) > 0 {
				return "len(" + path[len(path)-1] + ")"
			}
			return "len"
		}
		if _, path, ok := fieldPath(v); ok && len(path) > 0 {
			return path[len(path)-1]
		}
		return "?"
	}
	switch c := iff.Cond.(type) {
	case *ssa.BinOp:
		// range loop condition (counter < len): the panic follows the loop
		if c.Op == token.LSS {
			if _, isLen := c.Y.(*ssa.Call); isLen && name(c.X) == "?" {
				return "after-loop"
			}
		}
		return name(c.X) + c.Op.String() + name(c.Y)
	}
	return "cond"
}

// isZeroValue: v is the zero value of its type: a zero constant, or a load of a local that is never stored to.
func isZeroValue(v ssa.Value) bool {
	if c, ok := v.(*ssa.Const); ok {
		return c.Value == nil || c.IsNil() || (c.Value != nil && c.Value.String() == "0")
	}
	if ld, ok := v.(*ssa.UnOp); ok && ld.Op == token.MUL {
		if al, ok := ld.X.(*ssa.Alloc); ok {
			for _, rf := range *al.Referrers() {
				switch x := rf.(type) {
				case *ssa.Store:
					if x.Addr == ssa.Value(al) {
						return false
					}
				case *ssa.FieldAddr, *ssa.IndexAddr:
					return false
				}
			}
			return true
		}
	}
	return false
}

// specWalkDirection classifies how a function indexes the receiver's spec list inside its loop:
// "forward" when the element index is the loop counter itself (or a range over a tail slice),
// "reverse" when it is (len-1)-counter, len-(counter+1), or a counter that starts at len-1 and decreases.
func specWalkDirection(g *ssa.Function) (string, string) {
	dir, why := "", "no indexed access to the spec list in a loop"
	isSpecList := func(v ssa.Value) bool {
		switch x := v.(type) {
		case *ssa.Slice:
			_, path, ok := fieldPath(x.X)
			return ok && len(path) > 0 && path[len(path)-1] == "spec"
		}
		_, path, ok := fieldPath(v)
		return ok && len(path) > 0 && path[len(path)-1] == "spec"
	}
	isLenSpec := func(v ssa.Value) bool { return isLenCallOf(v, isSpecList) }
	// a loop counter: phi with an edge that is itself +/- 1
	counterStep := func(v ssa.Value) (int, ssa.Value) {
		// go/ssa rotates range loops: the counter in use is phi+1 and the phi's back edges are that sum
		if b, ok := v.(*ssa.BinOp); ok && b.Op == token.ADD {
			if ph, okp := b.X.(*ssa.Phi); okp {
				if c, okc := constInt(b.Y); okc && c == 1 {
					back := false
					var init ssa.Value
					for _, e := range ph.Edges {
						if e == ssa.Value(b) {
							back = true
						} else {
							init = e
						}
					}
					if back {
						return 1, init
					}
				}
			}
		}
		ph, ok := v.(*ssa.Phi)
		if !ok {
			return 0, nil
		}
		var init ssa.Value
		step := 0
		for _, e := range ph.Edges {
			if b, ok := e.(*ssa.BinOp); ok && (b.Op == token.ADD || b.Op == token.SUB) && b.X == ssa.Value(ph) {
				if c, okc := constInt(b.Y); okc && c == 1 {
					if b.Op == token.ADD {
						step = 1
					} else {
						step = -1
					}
					continue
				}
			}
			init = e
		}
		return step, init
	}
	eachInstr(g, func(in ssa.Instruction) {
		ia, ok := in.(*ssa.IndexAddr)
		if !ok || !isSpecList(ia.X) || dir != "" {
			return
		}
		idx := ia.Index
		if step, init := counterStep(idx); step != 0 {
			if step == 1 {
				dir, why = "forward", "index is an increasing loop counter"
				return
			}
			// decreasing: must start at len-1
			if b, ok := init.(*ssa.BinOp); ok && b.Op == token.SUB && isLenSpec(b.X) {
				dir, why = "reverse", "index is a counter decreasing from len-1"
			} else {
				dir, why = "", "decreasing counter with an unrecognised start"
			}
			return
		}
		if b, ok := idx.(*ssa.BinOp); ok && b.Op == token.SUB {
			// (len-1) - i
			if b2, ok := b.X.(*ssa.BinOp); ok && b2.Op == token.SUB && isLenSpec(b2.X) {
				if c, okc := constInt(b2.Y); okc && c == 1 {
					if step, _ := counterStep(b.Y); step == 1 {
						dir, why = "reverse", "index is len-1-i with i increasing"
						return
					}
				}
			}
			// len - (i+1)
			if isLenSpec(b.X) {
				if b2, ok := b.Y.(*ssa.BinOp); ok && b2.Op == token.ADD {
					if step, _ := counterStep(b2.X); step == 1 {
						dir, why = "reverse", "index is len-(i+1) with i increasing"
						return
					}
				}
			}
			dir, why = "", "index arithmetic not recognised"
		}
	})
	return dir, why
}

var _ = load.Module

// c08WaitSetComplete: S12 — when a supervisor starts its own termination it waits for every child
// that is still running: in the loop that fills the wait set (and the list of children to be told
// to stop) a child is left out only because its slot is empty or because it is the child that has
// just terminated. Any other reason to skip one (it "was asked to stop already", it is disabled,
// ...) lets the supervisor terminate — and its owner report 'stopped' — while that child runs.
func c08WaitSetComplete(p *load.Program, r *core.Report, machines []*ssa.Function, rule, rid string, floor int) {
	r.Floor(rule, floor)
	for _, f := range machines {
		fn := fname(f)
		// does this function enter shutdown? (store true to .shutdown / 3 to .mode)
		var enters []ssa.Instruction
		eachInstr(f, func(in ssa.Instruction) {
			st, ok := in.(*ssa.Store)
			if !ok {
				return
			}
			_, fl := fieldOwner(st.Addr)
			if fl == "shutdown" {
				if b, ok := constBool(st.Val); ok && b {
					enters = append(enters, in)
				}
			}
			if fl == "mode" {
				if c, ok := constInt(st.Val); ok && c == 3 {
					enters = append(enters, in)
				}
			}
		})
		if len(enters) == 0 {
			continue
		}
		seq := 0
		eachInstr(f, func(in ssa.Instruction) {
			mu, ok := in.(*ssa.MapUpdate)
			if !ok {
				return
			}
			// the map is the wait set: the field itself, or a local that is stored into it
			isWait := false
			if _, path, okp := fieldPath(mu.Map); okp && len(path) > 0 && path[len(path)-1] == "wait" {
				isWait = true
			}
			if refs := mu.Map.Referrers(); refs != nil && !isWait {
				for _, rf := range *refs {
					if st, ok := rf.(*ssa.Store); ok && st.Val == mu.Map {
						if _, fl := fieldOwner(st.Addr); fl == "wait" {
							isWait = true
						}
					}
				}
			}
			if !isWait {
				return
			}
			reachesEnter := false
			for _, e := range enters {
				if instrReachable(in, e) {
					reachesEnter = true
				}
			}
			hdr := loopHeaderOf(in)
			if !reachesEnter || hdr == nil {
				return
			}
			seq++
			key := fmt.Sprintf("%s|%s|wait-set#%d", rid, fn, seq)
			pos := p.Pos(in.Pos())
			inst := "every running child is put into the wait set of the supervisor's own termination (skipped only when its slot is empty or it is the terminated child)"
			// blocks of the loop
			inLoop := map[*ssa.BasicBlock]bool{}
			{
				fwd := map[*ssa.BasicBlock]bool{}
				var w func(b *ssa.BasicBlock)
				w = func(b *ssa.BasicBlock) {
					for _, s := range b.Succs {
						if !fwd[s] {
							fwd[s] = true
							w(s)
						}
					}
				}
				w(hdr)
				bwd := map[*ssa.BasicBlock]bool{}
				var wb func(b *ssa.BasicBlock)
				wb = func(b *ssa.BasicBlock) {
					for _, s := range b.Preds {
						if !bwd[s] {
							bwd[s] = true
							wb(s)
						}
					}
				}
				wb(hdr)
				for b := range fwd {
					if bwd[b] {
						inLoop[b] = true
					}
				}
				inLoop[hdr] = true
			}
			// can block b reach the header again without executing the update?
			var skipsMemo = map[*ssa.BasicBlock]int{}
			var canSkip func(b *ssa.BasicBlock, seen map[*ssa.BasicBlock]bool) bool
			canSkip = func(b *ssa.BasicBlock, seen map[*ssa.BasicBlock]bool) bool {
				if b == hdr {
					return true
				}
				if !inLoop[b] || seen[b] || b == in.Block() {
					return false
				}
				seen[b] = true
				for _, s := range b.Succs {
					if canSkip(s, seen) {
						return true
					}
				}
				return false
			}
			_ = skipsMemo
			canUpdate := func(b *ssa.BasicBlock) bool {
				return b == in.Block() || (len(b.Instrs) > 0 && instrReachableWithin(b, in.Block(), inLoop, hdr))
			}
			var bad []string
			n := 0
			for b := range inLoop {
				if b == hdr || len(b.Instrs) == 0 {
					continue
				}
				ifc, ok := b.Instrs[len(b.Instrs)-1].(*ssa.If)
				if !ok || len(b.Succs) != 2 {
					continue
				}
				s0skip := canSkip(b.Succs[0], map[*ssa.BasicBlock]bool{})
				s1skip := canSkip(b.Succs[1], map[*ssa.BasicBlock]bool{})
				s0upd := canUpdate(b.Succs[0])
				s1upd := canUpdate(b.Succs[1])
				if !((s0skip && s1upd) || (s1skip && s0upd)) || (s0upd && s1upd && !(s0skip != s1skip)) {
					continue
				}
				// a decision that can leave a child out
				n++
				if !allowedSkipCondition(ifc.Cond, f) {
					bad = append(bad, "a child is left out under the condition at "+p.Pos(ifc.Cond.Pos()))
				}
			}
			if len(bad) > 0 {
				sort.Strings(bad)
				r.Bad(rule, key, fn, pos, inst, strings.Join(bad, "; ")+": the supervisor does not wait for that child — it terminates (and an application stop reports success) while the child is still running")
			} else {
				r.OK(rule, key, fn, pos, inst, fmt.Sprintf("%d skip decision(s) in the loop, each compares the child's pid with the empty pid / the terminated pid or its name with the terminated name", n))
			}
		})
	}
}

// instrReachableWithin: target block reachable from b inside the loop without passing the header.
func instrReachableWithin(b, target *ssa.BasicBlock, inLoop map[*ssa.BasicBlock]bool, hdr *ssa.BasicBlock) bool {
	seen := map[*ssa.BasicBlock]bool{}
	var w func(x *ssa.BasicBlock) bool
	w = func(x *ssa.BasicBlock) bool {
		if x == target {
			return true
		}
		if x == hdr || !inLoop[x] || seen[x] {
			return false
		}
		seen[x] = true
		for _, s := range x.Succs {
			if w(s) {
				return true
			}
		}
		return false
	}
	return w(b)
}

// allowedSkipCondition: pid of the element == zero PID / pid parameter, or name of the element == name parameter.
func allowedSkipCondition(c ssa.Value, f *ssa.Function) bool {
	b, ok := c.(*ssa.BinOp)
	if !ok || (b.Op != token.EQL && b.Op != token.NEQ) {
		return false
	}
	isElemField := func(v ssa.Value) bool {
		_, path, okp := fieldPath(v)
		if !okp || len(path) == 0 {
			return false
		}
		last := path[len(path)-1]
		return last == "pid" || last == "Name"
	}
	isZeroOrParam := func(v ssa.Value) bool {
		v = resolveLocalCopy(v)
		switch x := v.(type) {
		case *ssa.Const:
			return true
		case *ssa.Parameter:
			return true
		case *ssa.UnOp:
			if x.Op == token.MUL {
				if al, ok := x.X.(*ssa.Alloc); ok {
					// a local that is never assigned (var empty gen.PID) or holds a parameter
					n := 0
					var val ssa.Value
					for _, rf := range *al.Referrers() {
						if st, ok := rf.(*ssa.Store); ok && st.Addr == ssa.Value(al) {
							n++
							val = st.Val
						}
					}
					if n == 0 {
						return true
					}
					if n == 1 {
						_, isPar := val.(*ssa.Parameter)
						return isPar
					}
				}
			}
		}
		return false
	}
	return (isElemField(b.X) && isZeroOrParam(b.Y)) || (isElemField(b.Y) && isZeroOrParam(b.X))
}

// c08WaitBookkeeping: S13 — a pid that is put into the wait set is taken out again when that
// process's termination is processed, whatever mode the machine is in: besides its own termination
// a machine also parks the children it stops for DisableChild there. Where any function other than
// childTerminated inserts into the wait set, childTerminated deletes the terminated pid on every
// path; otherwise the stale entry keeps a later restart or the supervisor's own termination
// waiting for ever.
func c08WaitBookkeeping(p *load.Program, r *core.Report, machines []*ssa.Function) {
	rule := "C08.S13 wait-set-entry-removed-at-termination"
	r.Floor(rule, 2)
	for _, f := range machines {
		rt := f.Signature.Recv()
		if rt == nil {
			continue
		}
		recvName := namedOf(rt.Type())
		insertsElsewhere := ""
		for _, g := range funcsOfPkgs(p, "act") {
			if g == f || root(g).Signature.Recv() == nil || namedOf(root(g).Signature.Recv().Type()) != recvName {
				continue
			}
			eachInstr(g, func(in ssa.Instruction) {
				if mu, ok := in.(*ssa.MapUpdate); ok {
					if _, path, okp := fieldPath(mu.Map); okp && len(path) > 0 && path[len(path)-1] == "wait" {
						insertsElsewhere = fname(g)
					}
				}
			})
		}
		if insertsElsewhere == "" {
			continue
		}
		fn := fname(f)
		key := "C08.S13|" + fn
		inst := "the terminated pid is deleted from the wait set on every path (the set is also filled by " + insertsElsewhere + ")"
		pidPar := paramOfType(f, "gen.PID", 0)
		isDel := func(in ssa.Instruction) bool {
			cc := callCommon(in)
			if cc == nil {
				return false
			}
			b, ok := cc.Value.(*ssa.Builtin)
			if !ok || b.Name() != "delete" || len(cc.Args) != 2 {
				return false
			}
			_, path, okp := fieldPath(cc.Args[0])
			if !okp || len(path) == 0 || path[len(path)-1] != "wait" {
				return false
			}
			return pidPar == nil || cc.Args[1] == ssa.Value(pidPar) || isParamValue(cc.Args[1], pidPar)
		}
		if hit := reaches([]Point{{f.Blocks[0], 0}}, isDel, isReturn); hit != nil {
			r.Bad(rule, key, fn, p.Pos(hit.Pos()), inst, "the return at "+p.Pos(hit.Pos())+" is reachable without delete(wait, pid): a child stopped by DisableChild stays in the wait set after it terminated — the next group restart waits for it for ever (nothing is started again), the supervisor's own termination never completes")
		} else {
			r.OK(rule, key, fn, p.Pos(f.Pos()), inst, "delete(wait, pid) on every path from the entry to a return")
		}
	}
}

// c08DisableMarks: S14 — DisableChild of a known child marks its spec disabled on every successful
// path, also when the child is not running at that moment ("a disabled child stays down" includes
// the next restart of the group).
func c08DisableMarks(p *load.Program, r *core.Report) {
	rule := "C08.S14 disable-marks-the-spec"
	r.Floor(rule, 3)
	for _, f := range funcsOfPkgs(p, "act") {
		if f.Parent() != nil || f.Name() != "childDisable" || f.Signature.Recv() == nil {
			continue
		}
		fn := fname(f)
		isMark := func(in ssa.Instruction) bool {
			st, ok := in.(*ssa.Store)
			if !ok {
				return false
			}
			if _, fl := fieldOwner(st.Addr); fl != "disabled" {
				return false
			}
			b, okb := constBool(st.Val)
			return okb && b
		}
		// edges on which the spec is already disabled
		var already []Edge
		eachInstr(f, func(in ssa.Instruction) {
			ld, ok := in.(*ssa.UnOp)
			if !ok || ld.Op != token.MUL {
				return
			}
			if _, fl := fieldOwner(ld.X); fl != "disabled" {
				return
			}
			t, _, _ := boolEdges(ld)
			already = append(already, t...)
		})
		n := 0
		var bad []string
		eachInstr(f, func(in ssa.Instruction) {
			rt, ok := in.(*ssa.Return)
			if !ok || len(rt.Results) != 2 || errKind(rt.Results[1]) != "nil" {
				return
			}
			n++
			if len(already) > 0 && edgesDominate(already, in) {
				return
			}
			// every path from the entry to this return passes the mark
			if hit := reaches([]Point{{f.Blocks[0], 0}}, isMark, func(x ssa.Instruction) bool { return x == in }); hit != nil {
				bad = append(bad, p.Pos(in.Pos()))
			}
		})
		key := "C08.S14|" + fn
		inst := "every successful return of DisableChild has marked the spec disabled (or found it disabled)"
		if len(bad) > 0 {
			r.Bad(rule, key, fn, p.Pos(f.Pos()), inst, "success is returned at "+strings.Join(bad, ", ")+" without disabled = true: a child that is not running at that moment is not disabled and comes back with the next restart of the group")
		} else {
			r.OK(rule, key, fn, p.Pos(f.Pos()), inst, fmt.Sprintf("%d successful return(s), each behind the mark or the already-disabled edge", n))
		}
	}
}

// c08IntensityCountsRestartsOnly: S17 — the restart intensity counts RESTARTS. In every strategy the
// bookkeeping call (supCheckRestartIntensity, which records one more restart and reports whether the
// limit is exceeded) is reached only behind the not-disabled edge of the test of the terminated
// child's `disabled` flag: a disabled child stays down, its termination restarts nothing, and
// counting it lets the supervisor end with "restart intensity exceeded" — taking the children of
// its other specs with it — although nothing was restarted.
func c08IntensityCountsRestartsOnly(p *load.Program, r *core.Report) {
	rule := "C08.S17 intensity-counts-restarts-only"
	r.Floor(rule, 3)
	chk := p.Func("act", "", "supCheckRestartIntensity")
	if chk == nil {
		r.Unk(rule, "C08.S17|anchor", "", "", "supCheckRestartIntensity is found", "not found")
		return
	}
	for _, f := range funcsOfPkgs(p, "act") {
		if f.Parent() != nil || f.Name() != "childTerminated" {
			continue
		}
		n := 0
		eachInstr(f, func(in ssa.Instruction) {
			c, ok := in.(*ssa.Call)
			if !ok || staticCallee(c.Common()) != chk {
				return
			}
			n++
			fn := fname(f)
			key := fmt.Sprintf("C08.S17|%s|intensity#%d", fn, n)
			inst := "the restart is counted only for a child that is not disabled"
			var enabled []Edge
			eachInstr(f, func(x ssa.Instruction) {
				u, ok := x.(*ssa.UnOp)
				if !ok {
					return
				}
				if _, path, okp := fieldPath(u); !okp || len(path) == 0 || path[len(path)-1] != "disabled" {
					return
				}
				if _, fl, complete := boolEdges(u); complete {
					enabled = append(enabled, fl...)
				}
			})
			if len(enabled) > 0 && edgesDominate(enabled, in) {
				r.OK(rule, key, fn, p.Pos(in.Pos()), inst, "the call is dominated by the false edge of the disabled test")
			} else {
				r.Bad(rule, key, fn, p.Pos(in.Pos()), inst, "the termination of a disabled child is counted as a restart although nothing restarts: a few of them make the supervisor terminate with 'restart intensity exceeded' and stop the children of its other specs")
			}
		})
	}
}

// c08ActionAssignedWhereReturned: S18 — the strategy functions answer with a supAction value that
// the supervisor interprets field by field (an empty terminate list together with a reason means
// "terminate the supervisor"). The action is a local variable that several branches fill; a field
// assigned in a branch that is then NOT taken to its return leaks into the answer of a later
// branch. Every assignment to a field of the action is followed by the return of that action in
// straight-line code: no conditional branch (the tests of a collecting loop apart) lies between the
// assignment and the return.
func c08ActionAssignedWhereReturned(p *load.Program, r *core.Report) {
	rule := "C08.S18 action-fields-assigned-where-the-action-is-returned"
	r.Floor(rule, 5)
	for _, f := range funcsOfPkgs(p, "act") {
		if f.Parent() != nil || f.Signature.Results().Len() != 1 || !strings.HasSuffix(f.Signature.Results().At(0).Type().String(), "act.supAction") {
			continue
		}
		fn := fname(f)
		var leak ssa.Instruction
		var leakField string
		stores := 0
		eachInstr(f, func(in ssa.Instruction) {
			st, ok := in.(*ssa.Store)
			if !ok {
				return
			}
			fa, ok := st.Addr.(*ssa.FieldAddr)
			if !ok {
				return
			}
			al, ok := fa.X.(*ssa.Alloc)
			if !ok || !strings.HasSuffix(al.Type().String(), "act.supAction") {
				return
			}
			stores++
			if h := reaches([]Point{after(in)}, isReturn, func(x ssa.Instruction) bool {
				_, isIf := x.(*ssa.If)
				// the tests of a loop that collects the list (its header and the filters inside it)
				// always come back to the code after the loop: only a branch outside any loop counts
				return isIf && len(sccOf(x.Block())) == 0
			}); h != nil {
				leak = in
				leakField = derefStruct(al.Type()).Field(fa.Field).Name()
			}
		})
		if stores == 0 {
			continue
		}
		key := "C08.S18|" + fn
		inst := "every assignment to a field of the action is followed by its return without a conditional branch in between"
		if leak == nil {
			r.OK(rule, key, fn, p.Pos(f.Pos()), inst, fmt.Sprintf("%d field assignment(s), each in straight-line code up to a return", stores))
		} else {
			r.Bad(rule, key, fn, p.Pos(leak.Pos()), inst, "action."+leakField+" is assigned before a test that may not return: the value leaks into the answer of a later branch (an empty terminate list with a reason is read as 'terminate the supervisor')")
		}
	}
}

// c08StartModeEnds: S19 — an all-for-one / rest-for-one supervisor restarts its children one after
// another in a "starting" mode during which EnableChild, StartChild, AddChild and DisableChild are
// refused. The function that is told "this child has started" either answers with the next child to
// start or leaves the mode: on every path taken while the mode is "starting", a return is preceded by
// the assignment of the start-child action or by the reset of the mode. (With the trailing specs
// disabled there is no next child — without the reset the supervisor refuses those calls for ever.)
func c08StartModeEnds(p *load.Program, r *core.Report) {
	rule := "C08.S19 starting-mode-ends"
	r.Floor(rule, 1)
	for _, f := range funcsOfPkgs(p, "act") {
		if f.Parent() != nil || f.Name() != "childStarted" || f.Signature.Recv() == nil {
			continue
		}
		st := derefStruct(f.Signature.Recv().Type())
		if st == nil {
			continue
		}
		hasMode := false
		for i := 0; i < st.NumFields(); i++ {
			if st.Field(i).Name() == "mode" {
				hasMode = true
			}
		}
		if !hasMode {
			continue
		}
		var starts []Point
		var startConst int64 = -1
		eachInstr(f, func(in ssa.Instruction) {
			b, ok := in.(*ssa.BinOp)
			if !ok || (b.Op != token.NEQ && b.Op != token.EQL) {
				return
			}
			c, okc := constInt(b.Y)
			if !okc {
				return
			}
			if bb, path, okp := fieldPath(b.X); !okp || len(path) != 1 || path[0] != "mode" || canon(bb) != ssa.Value(f.Params[0]) {
				return
			}
			t, fl, complete := boolEdges(b)
			if !complete {
				return
			}
			in1 := t
			if b.Op == token.NEQ {
				in1 = fl
			}
			startConst = c
			starts = append(starts, edgePoints(in1)...)
		})
		if len(starts) == 0 {
			continue
		}
		fn := fname(f)
		key := "C08.S19|" + fn
		inst := "while in the starting mode every return either asks for the next child to be started or leaves the mode"
		settles := func(in ssa.Instruction) bool {
			s, ok := in.(*ssa.Store)
			if !ok {
				return false
			}
			if _, path, okp := fieldPath(s.Addr); okp && len(path) == 1 && path[0] == "mode" {
				if c, okc := constInt(s.Val); okc && c != startConst {
					return true
				}
			}
			if fa, ok := s.Addr.(*ssa.FieldAddr); ok {
				if ast := derefStruct(fa.X.Type()); ast != nil && ast.Field(fa.Field).Name() == "do" {
					if c, okc := constInt(s.Val); okc && c != 0 {
						return true
					}
				}
			}
			return false
		}
		if h := reaches(starts, settles, isReturn); h != nil {
			r.Bad(rule, key, fn, p.Pos(h.Pos()), inst, "this return is reached in the starting mode without an action and without a reset of the mode: when every spec after the started child is running or disabled the supervisor stays in the starting mode and refuses EnableChild/StartChild/AddChild/DisableChild for ever")
		} else {
			r.OK(rule, key, fn, p.Pos(f.Pos()), inst, fmt.Sprintf("mode value %d: every return behind it passes an action assignment or a mode reset", startConst))
		}
	}
}

// c09RestartPassesIntensity: I4 — every restart is counted. In the strategy functions that react to
// a child's termination, the answer "start this child (again)" — the action supActionStartChild, and
// for the all-for-one/rest-for-one strategy the switch into a restarting mode — is given only after the
// restart-intensity bookkeeping has run on that path (the call dominates the assignment). A fast
// path that restarts without it ("nothing to stop first") restarts a failing child for ever.
func c09RestartPassesIntensity(p *load.Program, r *core.Report) {
	rule := "C09.I4 every-restart-is-counted"
	r.Floor(rule, 3)
	chk := p.Func("act", "", "supCheckRestartIntensity")
	if chk == nil {
		r.Unk(rule, "C09.I4|anchor", "", "", "supCheckRestartIntensity is found", "not found")
		return
	}
	// the constant of supActionStartChild
	var startConst int64 = -1
	if pk := p.Pkg("act"); pk != nil {
		if o := pk.Types.Scope().Lookup("supActionStartChild"); o != nil {
			if c, ok := o.(*types.Const); ok {
				if v, okv := constant.Int64Val(constant.ToInt(c.Val())); okv {
					startConst = v
				}
			}
		}
	}
	if startConst < 0 {
		r.Unk(rule, "C09.I4|const", "", "", "the start-child action constant is found", "not found")
		return
	}
	for _, f := range funcsOfPkgs(p, "act") {
		if f.Parent() != nil || f.Name() != "childTerminated" {
			continue
		}
		var calls []ssa.Instruction
		eachInstr(f, func(in ssa.Instruction) {
			if c, ok := in.(*ssa.Call); ok && staticCallee(c.Common()) == chk {
				calls = append(calls, in)
			}
		})
		n := 0
		eachInstr(f, func(in ssa.Instruction) {
			st, ok := in.(*ssa.Store)
			if !ok {
				return
			}
			fa, ok := st.Addr.(*ssa.FieldAddr)
			if !ok {
				return
			}
			ast := derefStruct(fa.X.Type())
			if ast == nil || ast.Field(fa.Field).Name() != "do" {
				return
			}
			if c, okc := constInt(st.Val); !okc || c != startConst {
				return
			}
			n++
			fn := fname(f)
			key := fmt.Sprintf("C09.I4|%s|restart#%d", fn, n)
			inst := "the restart of a terminated child is answered only after the restart was counted against the intensity"
			dominated := false
			for _, c := range calls {
				if instrDominates(c, in) {
					dominated = true
				}
			}
			// the continuation of a restart that is in progress: the branch taken while the mode
			// word has a value that is only ever assigned behind the bookkeeping (the restart was
			// counted when it began; now the children that had to be stopped first are gone)
			continued := false
			if !dominated {
				counted := map[int64]bool{}
				uncounted := map[int64]bool{}
				eachInstr(f, func(x ssa.Instruction) {
					ms, ok := x.(*ssa.Store)
					if !ok {
						return
					}
					if _, path, okp := fieldPath(ms.Addr); !okp || len(path) != 1 || path[0] != "mode" {
						return
					}
					c, okc := constInt(ms.Val)
					if !okc {
						return
					}
					dom := false
					for _, cl := range calls {
						if instrDominates(cl, x) {
							dom = true
						}
					}
					if dom {
						counted[c] = true
					} else {
						uncounted[c] = true
					}
				})
				eachInstr(f, func(x ssa.Instruction) {
					b, ok := x.(*ssa.BinOp)
					if !ok || b.Op != token.EQL {
						return
					}
					c, okc := constInt(b.Y)
					if !okc || !counted[c] || uncounted[c] {
						return
					}
					if _, path, okp := fieldPath(b.X); !okp || len(path) != 1 || path[0] != "mode" {
						return
					}
					if t, _, complete := boolEdges(b); complete && edgesDominate(t, in) {
						continued = true
					}
				})
			}
			if continued {
				r.OK(rule, key, fn, p.Pos(in.Pos()), inst, "continuation of a restart in progress: dominated by the test of a mode value that is only assigned behind supCheckRestartIntensity")
			} else if dominated {
				r.OK(rule, key, fn, p.Pos(in.Pos()), inst, "supCheckRestartIntensity dominates the assignment of the start-child action")
			} else {
				r.Bad(rule, key, fn, p.Pos(in.Pos()), inst, "this path answers 'start the child' without the intensity bookkeeping: a child that keeps failing on it is restarted for ever and its restarts are not counted for the others")
			}
		})
	}
}
