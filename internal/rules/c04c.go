package rules

import (
	"fmt"
	"strings"

	"golang.org/x/tools/go/ssa"

	"verif/internal/core"
	"verif/internal/load"
)

// remoteRelationFirst: a link/monitor request on a REMOTE target is answered by the peer after it
// has recorded the relation; from that moment the peer may send the notice of the target's
// termination (for an event: its publications), which another goroutine of this node handles.
// The requester's node therefore records the relation BEFORE it sends the request (the add call
// dominates the request) and takes it back on the failing edge of the request — a relation added
// after the answer is found by no cleanup and is never reported; publications in between are dropped.
func remoteRelationFirst(p *load.Program, r *core.Report, rule, rid string, floor int, only func(string) bool) {
	r.Floor(rule, floor)
	isTM := func(cc *ssa.CallCommon, prefix string) bool {
		name := ""
		if cc.IsInvoke() {
			name = cc.Method.Name()
		} else if sf := staticCallee(cc); sf != nil {
			name = sf.Name()
		}
		if !strings.HasPrefix(name, prefix) {
			return false
		}
		rest := strings.TrimPrefix(name, prefix)
		return rest == "Link" || rest == "Monitor"
	}
	for _, f := range funcsOfPkgs(p, "node") {
		if f.Parent() != nil {
			continue
		}
		eachInstr(f, func(in ssa.Instruction) {
			c, ok := in.(*ssa.Call)
			if !ok || !c.Common().IsInvoke() {
				return
			}
			m := c.Common().Method.Name()
			if !(strings.HasPrefix(m, "Link") || strings.HasPrefix(m, "Monitor")) || !strings.HasSuffix(c.Common().Value.Type().String(), "gen.Connection") {
				return
			}
			if only != nil && !only(m) {
				return
			}
			fn := fname(f)
			key := fmt.Sprintf("%s|%s|%s", rid, fn, m)
			inst := "the relation is recorded before the request goes to the peer and is taken back when the request fails"
			kind := "Link"
			if strings.HasPrefix(m, "Monitor") {
				kind = "Monitor"
			}
			added := false
			eachInstr(f, func(x ssa.Instruction) {
				if cc := callCommon(x); cc != nil && isTM(cc, "Add") && strings.HasSuffix(callName(cc), kind) && instrDominates(x, in) {
					added = true
				}
			})
			if !added {
				r.Bad(rule, key, fn, p.Pos(in.Pos()), inst, "no Add"+kind+" dominates the request: the peer's termination notice (or the publications of the event) can be handled here before the relation exists — the request succeeds and is never notified")
				return
			}
			// the failing edge of the request removes the relation
			errV := ssa.Value(c)
			if c.Common().Signature().Results().Len() > 1 {
				errV = tupleExtract(c, c.Common().Signature().Results().Len()-1)
			}
			_, nonnil, _ := nilEdges(errV)
			if len(nonnil) == 0 {
				r.Unk(rule, key, fn, p.Pos(in.Pos()), inst, "the error of the request is not tested")
				return
			}
			removed := reaches(edgePoints(nonnil), nil, func(x ssa.Instruction) bool {
				cc := callCommon(x)
				return cc != nil && isTM(cc, "Remove") && strings.HasSuffix(callName(cc), kind)
			}) != nil
			// and no return on that edge before the removal
			early := reaches(edgePoints(nonnil), func(x ssa.Instruction) bool {
				cc := callCommon(x)
				return cc != nil && isTM(cc, "Remove") && strings.HasSuffix(callName(cc), kind)
			}, isReturn)
			if removed && early == nil {
				r.OK(rule, key, fn, p.Pos(in.Pos()), inst, "Add"+kind+" dominates the request; every path from its failing edge passes Remove"+kind)
			} else {
				r.Bad(rule, key, fn, p.Pos(in.Pos()), inst, "the request's failing edge returns without taking the relation back: a refused request leaves a relation that reports a target the requester was told it has no relation with")
			}
		})
	}
}

func callName(cc *ssa.CallCommon) string {
	if cc.IsInvoke() {
		return cc.Method.Name()
	}
	if sf := staticCallee(cc); sf != nil {
		return sf.Name()
	}
	return ""
}

// c04SignalsDuringInit: L13 — a process can be linked before it is in the process table: its
// ProcessInit callback may call Link* or Spawn(LinkChild), and spawn enters the process into
// `processes` only when ProcessInit has returned. An exit signal for it that arrives meanwhile must
// not be dropped: (a) spawn enters the process into a second table before it invokes ProcessInit and
// takes it out on the success path only after processes.Store; (b) the exit delivery helper looks the
// addressee up in that table first and in `processes` second (spawn's order makes one of them hit).
func c04SignalsDuringInit(a *Anchors, r *core.Report) {
	rule := "C04.L13 exit-signal-reaches-a-process-in-init"
	r.Floor(rule, 2)
	p := a.P
	nodeT := a.NodeT.Obj().Name()
	spawn := p.Func("node", nodeT, "spawn")
	deliver := p.Func("node", nodeT, "sendExitMessage")
	if spawn == nil || deliver == nil {
		r.Unk(rule, "C04.L13|anchors", "", "", "spawn and sendExitMessage are found", "missing")
		return
	}
	tableOp := func(in ssa.Instruction, method string) string {
		c, ok := in.(*ssa.Call)
		if !ok {
			return ""
		}
		if m, okm := syncMapCall(c.Common()); !okm || m != method {
			return ""
		}
		if own, _ := fieldOwner(c.Common().Args[0]); own != a.NodeT {
			return ""
		}
		_, path, okp := fieldPath(c.Common().Args[0])
		if !okp || len(path) == 0 {
			return ""
		}
		return path[len(path)-1]
	}
	var initCall, reg ssa.Instruction
	eachInstr(spawn, func(in ssa.Instruction) {
		if cc := callCommon(in); cc != nil && cc.IsInvoke() && cc.Method.Name() == "ProcessInit" {
			initCall = in
		}
		if tableOp(in, "Store") == "processes" {
			reg = in
		}
	})
	key1 := "C04.L13|" + fname(spawn) + "|reachable-during-init"
	inst1 := "the process is entered into a table of initializing processes before ProcessInit and taken out, on the success path, only after it is in the process table"
	if initCall == nil || reg == nil {
		r.Unk(rule, key1, fname(spawn), p.Pos(spawn.Pos()), inst1, "ProcessInit call or processes.Store not found")
		return
	}
	table := ""
	eachInstr(spawn, func(in ssa.Instruction) {
		if t := tableOp(in, "Store"); t != "" && t != "processes" && instrDominates(in, initCall) {
			// the key is the new pid
			table = t
		}
	})
	if table == "" {
		r.Bad(rule, key1, fname(spawn), p.Pos(initCall.Pos()), inst1, "nothing makes the process reachable while ProcessInit runs: a child spawned with LinkChild (or a process linked with Link*) in Init that terminates before Init returns sends its exit signal to an unknown process — the signal is dropped and the relation is consumed")
	} else {
		bad := ""
		eachInstr(spawn, func(in ssa.Instruction) {
			if tableOp(in, "Delete") != table {
				return
			}
			// on the success path (reachable from the registration or reaching it) the removal follows the registration
			if instrReachable(in, reg) {
				bad = "the process is taken out of '" + table + "' at " + p.Pos(in.Pos()) + " before it is in the process table: a signal in between finds it in neither"
			}
		})
		if bad != "" {
			r.Bad(rule, key1, fname(spawn), p.Pos(reg.Pos()), inst1, bad)
		} else {
			r.OK(rule, key1, fname(spawn), p.Pos(initCall.Pos()), inst1, "table '"+table+"': Store dominates the ProcessInit call; no Delete of it can be followed by processes.Store")
		}
	}
	key2 := "C04.L13|" + fname(deliver) + "|lookup-order"
	inst2 := "the exit delivery looks the addressee up among the initializing processes first and in the process table second"
	var first, second ssa.Instruction
	eachInstr(deliver, func(in ssa.Instruction) {
		switch t := tableOp(in, "Load"); {
		case t == "processes":
			second = in
		case t != "" && t == table:
			if first == nil {
				first = in
			}
		}
	})
	switch {
	case table == "":
		r.Bad(rule, key2, fname(deliver), p.Pos(deliver.Pos()), inst2, "there is no such table")
	case first == nil || second == nil:
		r.Bad(rule, key2, fname(deliver), p.Pos(deliver.Pos()), inst2, "the delivery does not consult '"+table+"': an exit signal for a process in its Init callback is answered with 'unknown process' and dropped")
	case !instrDominates(first, second):
		r.Bad(rule, key2, fname(deliver), p.Pos(second.Pos()), inst2, "the process table is consulted first: spawn registers the process and then takes it out of '"+table+"', so a lookup in this order can miss both")
	default:
		r.OK(rule, key2, fname(deliver), p.Pos(first.Pos()), inst2, "'"+table+"'.Load dominates processes.Load")
	}
}

// c04NoEarlyWake: L13c — spawn switches a fresh process to Sleep just before it registers it. A
// sender that found the process among the initializing ones and woke it in that moment would let it
// run, and terminate, before it is registered and counted (the dead process is then stored for good
// and node.Stop waits for it for ever). After its push the exit delivery helper therefore wakes a
// process it found in the initializing table only behind the miss edge of a second lookup in that
// table (spawn has taken it out, hence registered it); spawn wakes it otherwise. And spawn counts the
// process (WaitGroup.Add) before it enters it into the process table.
func c04NoEarlyWake(a *Anchors, r *core.Report) {
	rule := "C04.L13c no-wake-before-registration"
	r.Floor(rule, 2)
	p := a.P
	nodeT := a.NodeT.Obj().Name()
	spawn := p.Func("node", nodeT, "spawn")
	deliver := p.Func("node", nodeT, "sendExitMessage")
	if spawn == nil || deliver == nil {
		r.Unk(rule, "C04.L13c|anchors", "", "", "spawn and sendExitMessage are found", "missing")
		return
	}
	tableOf := func(in ssa.Instruction, method string) string {
		c, ok := in.(*ssa.Call)
		if !ok {
			return ""
		}
		if m, okm := syncMapCall(c.Common()); !okm || m != method {
			return ""
		}
		if own, _ := fieldOwner(c.Common().Args[0]); own != a.NodeT {
			return ""
		}
		_, path, okp := fieldPath(c.Common().Args[0])
		if !okp || len(path) == 0 {
			return ""
		}
		return path[len(path)-1]
	}
	// the initializing table: looked up in deliver before `processes`
	var first, procs ssa.Instruction
	table := ""
	eachInstr(deliver, func(in ssa.Instruction) {
		t := tableOf(in, "Load")
		if t == "processes" {
			procs = in
		}
	})
	eachInstr(deliver, func(in ssa.Instruction) {
		t := tableOf(in, "Load")
		if t != "" && t != "processes" && procs != nil && instrDominates(in, procs) && first == nil {
			first, table = in, t
		}
	})
	key := "C04.L13c|" + fname(deliver) + "|wake"
	inst := "a process found among the initializing ones is woken by the sender only when a second lookup after the push no longer finds it there"
	if first == nil {
		r.OK(rule, key, fname(deliver), p.Pos(deliver.Pos()), inst, "the delivery consults no table of initializing processes (C04.L13 judges that)")
	} else {
		var push ssa.Instruction
		eachInstr(deliver, func(in ssa.Instruction) {
			if cc := callCommon(in); cc != nil && cc.IsInvoke() && cc.Method.Name() == "Push" {
				push = in
			}
		})
		okv := tupleExtract(first.(ssa.Value), 1)
		var starts []Point
		if okv != nil && push != nil {
			if refs := okv.Referrers(); refs != nil {
				for _, rf := range *refs {
					iff, isIf := rf.(*ssa.If)
					if isIf && instrReachable(push, iff) {
						starts = append(starts, Point{iff.Block().Succs[0], 0})
					}
				}
			}
		}
		cut := map[Edge]bool{}
		eachInstr(deliver, func(in ssa.Instruction) {
			if tableOf(in, "Load") != table || in == first || push == nil || !instrReachable(push, in) {
				return
			}
			if v := tupleExtract(in.(ssa.Value), 1); v != nil {
				if _, miss, complete := boolEdges(v); complete {
					for _, e := range miss {
						cut[e] = true
					}
				}
			}
		})
		isWake := func(in ssa.Instruction) bool {
			cc := callCommon(in)
			return cc != nil && staticCallee(cc) == a.ProcWake
		}
		switch {
		case push == nil || okv == nil:
			r.Unk(rule, key, fname(deliver), p.Pos(first.Pos()), inst, "push or lookup result not found")
		case len(starts) == 0:
			r.Bad(rule, key, fname(deliver), p.Pos(push.Pos()), inst, "after the push nothing distinguishes a process found in '"+table+"': it is woken like a registered one — in the moment spawn has switched it to Sleep and not yet registered it, it runs and can terminate unregistered and uncounted")
		case reachAvoidEdges(starts, cut, nil, isWake) != nil:
			r.Bad(rule, key, fname(deliver), p.Pos(push.Pos()), inst, "the wake-up is reachable on the 'found in "+table+"' branch without a second lookup that misses: the process can be run before spawn has registered and counted it")
		default:
			r.OK(rule, key, fname(deliver), p.Pos(push.Pos()), inst, "on the 'found in "+table+"' branch the wake-up is behind the miss edge of a second lookup in '"+table+"'")
		}
	}
	// spawn counts before it registers
	key2 := "C04.L13c|" + fname(spawn) + "|counted-before-registered"
	inst2 := "the process is counted in the node's wait group before it is entered into the process table"
	var reg, add ssa.Instruction
	eachInstr(spawn, func(in ssa.Instruction) {
		if tableOf(in, "Store") == "processes" {
			reg = in
		}
		if cc := callCommon(in); cc != nil {
			if sf := staticCallee(cc); sf != nil && sf.Name() == "Add" && sf.Pkg != nil && sf.Pkg.Pkg.Path() == "sync" {
				add = in
			}
		}
	})
	switch {
	case reg == nil || add == nil:
		r.Unk(rule, key2, fname(spawn), p.Pos(spawn.Pos()), inst2, "processes.Store or WaitGroup.Add not found")
	case instrReachable(reg, add):
		r.Bad(rule, key2, fname(spawn), p.Pos(add.Pos()), inst2, "WaitGroup.Add follows the registration: a sender that finds the Sleep process in the table runs it, it terminates and counts itself out before it was counted in (negative WaitGroup counter: panic)")
	default:
		r.OK(rule, key2, fname(spawn), p.Pos(add.Pos()), inst2, "Add is not reachable from processes.Store (it precedes it)")
	}
}
