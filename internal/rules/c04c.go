package rules

import (
	"fmt"
	"strings"

	"golang.org/x/tools/go/ssa"

	"verif/internal/core"
	"verif/internal/load"
)

// remoteRelationFirst: a link/monitor request on a REMOTE target is answered by the peer after it
// has recorded the relation; from that moment the peer may send the notice of the target's
// termination (for an event: its publications), which another goroutine of this node handles.
// The requester's node therefore records the relation BEFORE it sends the request (the add call
// dominates the request) and takes it back on the failing edge of the request — a relation added
// after the answer is found by no cleanup and is never reported; publications in between are dropped.
func remoteRelationFirst(p *load.Program, r *core.Report, rule, rid string, floor int, only func(string) bool) {
	r.Floor(rule, floor)
	isTM := func(cc *ssa.CallCommon, prefix string) bool {
		name := ""
		if cc.IsInvoke() {
			name = cc.Method.Name()
		} else if sf := staticCallee(cc); sf != nil {
			name = sf.Name()
		}
		if !strings.HasPrefix(name, prefix) {
			return false
		}
		rest := strings.TrimPrefix(name, prefix)
		return rest == "Link" || rest == "Monitor"
	}
	for _, f := range funcsOfPkgs(p, "node") {
		if f.Parent() != nil {
			continue
		}
		eachInstr(f, func(in ssa.Instruction) {
			c, ok := in.(*ssa.Call)
			if !ok || !c.Common().IsInvoke() {
				return
			}
			m := c.Common().Method.Name()
			if !(strings.HasPrefix(m, "Link") || strings.HasPrefix(m, "Monitor")) || !strings.HasSuffix(c.Common().Value.Type().String(), "gen.Connection") {
				return
			}
			if only != nil && !only(m) {
				return
			}
			fn := fname(f)
			key := fmt.Sprintf("%s|%s|%s", rid, fn, m)
			inst := "the relation is recorded before the request goes to the peer and is taken back when the request fails"
			kind := "Link"
			if strings.HasPrefix(m, "Monitor") {
				kind = "Monitor"
			}
			added := false
			eachInstr(f, func(x ssa.Instruction) {
				if cc := callCommon(x); cc != nil && isTM(cc, "Add") && strings.HasSuffix(callName(cc), kind) && instrDominates(x, in) {
					added = true
				}
			})
			if !added {
				r.Bad(rule, key, fn, p.Pos(in.Pos()), inst, "no Add"+kind+" dominates the request: the peer's termination notice (or the publications of the event) can be handled here before the relation exists — the request succeeds and is never notified")
				return
			}
			// the failing edge of the request removes the relation
			errV := ssa.Value(c)
			if c.Common().Signature().Results().Len() > 1 {
				errV = tupleExtract(c, c.Common().Signature().Results().Len()-1)
			}
			_, nonnil, _ := nilEdges(errV)
			if len(nonnil) == 0 {
				r.Unk(rule, key, fn, p.Pos(in.Pos()), inst, "the error of the request is not tested")
				return
			}
			removed := reaches(edgePoints(nonnil), nil, func(x ssa.Instruction) bool {
				cc := callCommon(x)
				return cc != nil && isTM(cc, "Remove") && strings.HasSuffix(callName(cc), kind)
			}) != nil
			// and no return on that edge before the removal
			early := reaches(edgePoints(nonnil), func(x ssa.Instruction) bool {
				cc := callCommon(x)
				return cc != nil && isTM(cc, "Remove") && strings.HasSuffix(callName(cc), kind)
			}, isReturn)
			if removed && early == nil {
				r.OK(rule, key, fn, p.Pos(in.Pos()), inst, "Add"+kind+" dominates the request; every path from its failing edge passes Remove"+kind)
			} else {
				r.Bad(rule, key, fn, p.Pos(in.Pos()), inst, "the request's failing edge returns without taking the relation back: a refused request leaves a relation that reports a target the requester was told it has no relation with")
			}
		})
	}
}

func callName(cc *ssa.CallCommon) string {
	if cc.IsInvoke() {
		return cc.Method.Name()
	}
	if sf := staticCallee(cc); sf != nil {
		return sf.Name()
	}
	return ""
}
