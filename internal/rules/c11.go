package rules

import (
	"fmt"
	"go/ast"
	"go/constant"
	"go/token"
	"go/types"
	"sort"
	"strings"

	"golang.org/x/tools/go/ssa"

	"verif/internal/core"
	"verif/internal/load"
)

func init() {
	Registry["C11"] = Set{
		Explanation: "Decides structural clauses of the EDF round trip on the built-in codec: E1 registry agreement — for every wire tag the encoder registered for Go type T emits that tag (in the registry entry and inside the function) and the decoder registered under the tag produces T and checks the same tag; encodeX is paired with decodeX; E2 width agreement — per pair, the constant byte counts produced (Extend/AppendByte) equal the constant byte counts consumed (slice advances), every advance is covered by a length guard of the same size, atoms written equal atoms read; E3 length limits — no addition or multiplication is performed in a narrow unsigned type (uint8/16/32) on a decoded length (wrap makes accepted values undecodable), and the largest length each encoder accepts fits the wire field it is converted to; E4 no dynamic format string in the codec, protocol and handshake packages (decoded bytes must never be a format); E5 the discriminator constants agree across encoder guard, encoder cache test, decoder test and cache-id allocator for atoms (255), errors (32767, nil marker 65535) and registered names (4095); E6 cache direction — the handshake builds encode caches from the local Introduce and decode caches from the peer's, in both roles. Added while probing: E7 composite type descriptors: every composite tag the encoder emits has an arm in the decoder's type unfolding checking the same tag; E8 every fixed-width integer access of the codec is big-endian (no other byte order in net/edf). E9 a collection present on the wire is decoded into a made collection on every successful path (nil and empty stay apart); E2r the fixed-width reads a decoder takes from one packet value tile it from offset 0 without gap or overlap. E10 every element-encoder call inside a composite encoder's loop is reached only through a reset of the sticky type-header flag (a missing reset between a map's key and value corrupts maps with interface-typed keys). E6b decode caches are keyed by ids ranged from the PEER's table, never by the local id. E11 no write through a Buffer.Extend window after anything that may grow that buffer (own appending methods, handing the buffer to a callee or as io.Writer). E12 slice/array coders are built only after the zero-wire-size predicate refused element types that take no bytes (encoder, registration, unfolding agree). E13 every successful return of the type unfolding hands back the rest of the fold (a map's value type follows its key type), the caller with a complete fold checks that nothing is left. E12 also counts the map guard (a map whose key and value both take no bytes is refused when encoding and registering); its floor is the number of guards confirmed by hand. E14 the function that encodes an interface-typed value by the encoder of its dynamic type compares a nesting counter with a constant not above the decoder's bound (C16.B6) before the lookup and counts the level on every path (a deeper value would encode and not decode). E15 the value the atom mapping substitutes is compared with the 255 limit before its 16-bit length is written (the callers check the atom before the mapping; a longer length is read as a cache id). E16 reflect.Type.Size() is only ever tested for zero in net/edf: no accept/refuse decision depends on the memory layout of a type (a type with its own marshaling is large in memory and small on the wire).",
		NotDecided: []string{
			"equality of decode(encode(v)) over the value space",
			"behaviour of reflection for composite and registered types (header symmetry of slices/maps/structs is only checked for constant widths)",
			"custom Marshaler/Unmarshaler implementations of users",
		},
		Assumptions: []string{"lib.Buffer.Extend(n)/AppendByte append exactly n/1 bytes", "encoding/binary big-endian helpers are inverse to each other"},
		Run:         runC11,
	}
}

type edfReg struct {
	tag      string // constant name
	typ      string // type expression
	fn       string
	pos      token.Pos
	typeKind string
}

func runC11(p *load.Program, r *core.Report) {
	pk := p.Pkg("net/edf")
	if pk == nil {
		r.Unk("C11.anchors", "C11.anchors|pkg", "", "", "package net/edf", "not found")
		return
	}
	c11Registry(p, r)
	c11Widths(p, r)
	c11Narrow(p, r)
	c11Format(p, r)
	c11Discriminators(p, r)
	c11CacheDirection(p, r)
	c11Composite(p, r)
	byteOrderRule(p, r, "C11.E8 byte-order", "C11.E8", []string{"net/edf"}, 60)
	c11NilVsEmpty(p, r)
	c11ReadTiling(p, r)
	c11ElementFlagReset(p, r)
	c11DecodeCacheKeys(p, r)
	c11StaleWindow(p, r)
	c11UnfoldRemainder(p, r)
	c11NoProgressElements(p, r, "C11.E12 elements-take-bytes", "C11.E12")
	c11NestingAgreement(p, r)
	c11MappedAtomLength(p, r)
	c11NoMemorySizeBound(p, r)
	c11DepthBalanced(p, r)
	c11FreshElementTargets(p, r)
}

// c11ReadTiling: E2r — in every decoder of net/edf the fixed-width reads taken from one packet
// value (binary.BigEndian.UintN(x[a:b]) and single-byte x[k]) tile that value from offset 0 without
// gap or overlap: the first field is read at 0, each next one where the previous ended. A read at
// a shifted offset decodes the neighbouring bytes (the advance that follows is checked by E2).
func c11ReadTiling(p *load.Program, r *core.Report) {
	rule := "C11.E2r reads-tile-from-zero"
	r.Floor(rule, 21)
	width := map[string]int64{"Uint16": 2, "Uint32": 4, "Uint64": 8}
	for _, f := range funcsOfPkgs(p, "net/edf") {
		if !(strings.HasPrefix(root(f).Name(), "dec") || strings.HasPrefix(root(f).Name(), "registerType") || strings.HasPrefix(root(f).Name(), "decodeType")) {
			continue
		}
		type rng struct{ lo, hi int64 }
		by := map[ssa.Value][]rng{}
		var order []ssa.Value
		add := func(base ssa.Value, lo, hi int64) {
			if _, ok := by[base]; !ok {
				order = append(order, base)
			}
			for _, x := range by[base] {
				if x.lo == lo && x.hi == hi {
					return
				}
			}
			by[base] = append(by[base], rng{lo, hi})
		}
		symbolic := map[ssa.Value]bool{}
		eachInstr(f, func(in ssa.Instruction) {
			switch x := in.(type) {
			case *ssa.Call:
				sf := staticCallee(x.Common())
				if sf == nil || sf.Pkg == nil || sf.Pkg.Pkg.Path() != "encoding/binary" {
					return
				}
				w, ok := width[sf.Name()]
				if !ok || len(x.Common().Args) < 2 {
					return
				}
				a := x.Common().Args[1]
				if sl, ok := a.(*ssa.Slice); ok && isByteSlice(sl.X.Type()) {
					lo := int64(0)
					if sl.Low != nil {
						c, okc := constInt(sl.Low)
						if !okc {
							symbolic[sl.X] = true
							return
						}
						lo = c
					}
					add(sl.X, lo, lo+w)
					return
				}
				if isByteSlice(a.Type()) {
					add(a, 0, w)
				}
			case *ssa.UnOp:
				if x.Op != token.MUL {
					return
				}
				ia, ok := x.X.(*ssa.IndexAddr)
				if !ok || !isByteSlice(ia.X.Type()) {
					return
				}
				if c, okc := constInt(ia.Index); okc {
					add(ia.X, c, c+1)
				}
			}
		})
		n := 0
		for _, base := range order {
			rs := by[base]
			if symbolic[base] {
				continue
			}
			// only bases with at least one multi-byte read are of interest (pure tag peeks are E1's business)
			multi := false
			for _, x := range rs {
				if x.hi-x.lo > 1 {
					multi = true
				}
			}
			if !multi {
				continue
			}
			sort.Slice(rs, func(i, j int) bool { return rs[i].lo < rs[j].lo })
			n++
			key := fmt.Sprintf("C11.E2r|%s|packet#%d", fname(f), n)
			inst := "the fixed-width reads from one packet value start at offset 0 and follow each other without gap or overlap"
			bad := ""
			if rs[0].lo != 0 {
				bad = fmt.Sprintf("the first read starts at offset %d", rs[0].lo)
			}
			for i := 1; i < len(rs) && bad == ""; i++ {
				if rs[i].lo != rs[i-1].hi {
					bad = fmt.Sprintf("read [%d:%d] follows [%d:%d]", rs[i].lo, rs[i].hi, rs[i-1].lo, rs[i-1].hi)
				}
			}
			if bad != "" {
				r.Bad(rule, key, fname(f), p.Pos(f.Pos()), inst, bad+": the value is decoded from the wrong bytes")
			} else {
				r.OK(rule, key, fname(f), p.Pos(f.Pos()), inst, fmt.Sprintf("%d read(s) tile [0:%d]", len(rs), rs[len(rs)-1].hi))
			}
		}
	}
}

// c11NilVsEmpty: E9 — nil and empty collections are kept apart. In every collection decoder (a
// function of net/edf that builds its result with reflect.MakeMap/MakeMapWithSize/MakeSlice) a
// collection that is present on the wire (its length field has been read) is decoded into a made
// collection: every path from the length read to a successful return passes one of the Make calls.
// (The nil marker returns before the length is read.)
func c11NilVsEmpty(p *load.Program, r *core.Report) {
	rule := "C11.E9 nil-vs-empty"
	r.Floor(rule, 4)
	isMake := func(in ssa.Instruction) bool {
		cc := callCommon(in)
		if cc == nil {
			return false
		}
		sf := staticCallee(cc)
		return sf != nil && sf.Pkg != nil && sf.Pkg.Pkg.Path() == "reflect" && (sf.Name() == "MakeMap" || sf.Name() == "MakeMapWithSize" || sf.Name() == "MakeSlice")
	}
	seq := map[string]int{}
	for _, f := range funcsOfPkgs(p, "net/edf") {
		hasMake := false
		eachInstr(f, func(in ssa.Instruction) {
			if isMake(in) {
				hasMake = true
			}
		})
		if !hasMake {
			continue
		}
		eachInstr(f, func(in ssa.Instruction) {
			c, ok := in.(*ssa.Call)
			if !ok {
				return
			}
			sf := staticCallee(c.Common())
			if sf == nil || sf.Name() != "Uint32" || sf.Pkg == nil || sf.Pkg.Pkg.Path() != "encoding/binary" {
				return
			}
			// only length reads that lead to a Make call
			if reaches([]Point{after(in)}, nil, isMake) == nil {
				return
			}
			fn := fname(f)
			seq[fn]++
			key := fmt.Sprintf("C11.E9|%s|length#%d", fn, seq[fn])
			inst := "a collection present on the wire (length read) is decoded into a made collection on every successful path, also when its length is 0"
			bad := reaches([]Point{after(in)}, isMake, func(i2 ssa.Instruction) bool {
				ret, ok := i2.(*ssa.Return)
				if !ok || len(ret.Results) < 3 {
					return false
				}
				if errKind(ret.Results[len(ret.Results)-1]) != "nil" {
					return false
				}
				return !isNilConst(ret.Results[0])
			})
			if bad != nil {
				r.Bad(rule, key, fn, p.Pos(bad.Pos()), inst, "the successful return at "+p.Pos(bad.Pos())+" is reached without making the collection: an empty non-nil map/slice arrives as nil")
			} else {
				r.OK(rule, key, fn, p.Pos(in.Pos()), inst, "every successful return after the length read passes a reflect.Make* call")
			}
		})
	}
}

// byteOrderRule: every fixed-width integer that crosses the wire is written and read big-endian —
// in the given packages no function uses encoding/binary's little-endian (or native-endian) order;
// the number of big-endian accesses seen is reported and must not fall below the reference count
// (a positive witness that the rule still looks at the code).
func byteOrderRule(p *load.Program, r *core.Report, rule, rid string, pkgs []string, floorBig int) {
	r.Floor(rule, 1)
	big := 0
	var bad []string
	var badPos string
	for _, f := range funcsOfPkgs(p, pkgs...) {
		eachInstr(f, func(in ssa.Instruction) {
			cc := callCommon(in)
			if cc == nil {
				return
			}
			sf := staticCallee(cc)
			if sf == nil || sf.Pkg == nil || sf.Pkg.Pkg.Path() != "encoding/binary" || sf.Signature.Recv() == nil {
				return
			}
			switch namedOf(sf.Signature.Recv().Type()) {
			case "encoding/binary.bigEndian":
				big++
			default:
				bad = append(bad, fmt.Sprintf("%s uses %s.%s at %s", fname(f), namedOf(sf.Signature.Recv().Type()), sf.Name(), p.Pos(in.Pos())))
				badPos = p.Pos(in.Pos())
			}
		})
	}
	key := rid + "|" + strings.Join(pkgs, "+")
	inst := "all fixed-width integers on the wire are big-endian on the writing and on the reading side"
	switch {
	case len(bad) > 0:
		r.Bad(rule, key, "", badPos, inst, strings.Join(bad, "; ")+": the peer reads the bytes in the other order")
	case big < floorBig:
		r.Unk(rule, key, "", "", inst, fmt.Sprintf("only %d big-endian accesses found (reference: at least %d): the rule no longer sees the codec", big, floorBig))
	default:
		r.OK(rule, key, strings.Join(pkgs, ","), "", inst, fmt.Sprintf("%d big-endian accesses, no other byte order", big))
	}
}

// c11Composite: E7 — folded type descriptors of unnamed composites: every composite tag the
// encoder puts at the head of a type prefix has an arm in the decoder's type unfolding, and inside
// each arm the value decoder checks the same tag the value encoder appends.
func c11Composite(p *load.Program, r *core.Report) {
	rule := "C11.E7 composite-descriptors"
	r.Floor(rule, 3)
	pk := p.Pkg("net/edf")
	// encoder side: prefix := append([]byte{edtX, ...}, ...) and the AppendByte(edtY) calls in the same function literal scope
	type encArm struct {
		head    string
		appends map[string]bool
		pos     token.Pos
	}
	var encArms []encArm
	for _, file := range pk.Syntax {
		ast.Inspect(file, func(n ast.Node) bool {
			var list []ast.Stmt
			var scope ast.Node
			switch x := n.(type) {
			case *ast.BlockStmt:
				list, scope = x.List, x
			case *ast.CaseClause:
				list, scope = x.Body, x
			default:
				return true
			}
			blk := scope
			for _, st := range list {
				as, ok := st.(*ast.AssignStmt)
				if !ok || len(as.Rhs) != 1 {
					continue
				}
				ce, ok := as.Rhs[0].(*ast.CallExpr)
				if !ok || types.ExprString(ce.Fun) != "append" || len(ce.Args) < 1 {
					continue
				}
				cl, ok := ce.Args[0].(*ast.CompositeLit)
				if !ok || len(cl.Elts) == 0 {
					continue
				}
				head := types.ExprString(cl.Elts[0])
				if !strings.HasPrefix(head, "edt") {
					continue
				}
				arm := encArm{head: head, appends: map[string]bool{}, pos: as.Pos()}
				ast.Inspect(blk, func(m ast.Node) bool {
					c2, ok := m.(*ast.CallExpr)
					if ok && strings.HasSuffix(types.ExprString(c2.Fun), ".AppendByte") && len(c2.Args) == 1 {
						if id, ok := c2.Args[0].(*ast.Ident); ok && strings.HasPrefix(id.Name, "edt") && id.Name != "edtNil" {
							arm.appends[id.Name] = true
						}
					}
					return true
				})
				encArms = append(encArms, arm)
			}
			return true
		})
	}
	// decoder side: decodeType's switch arms
	decArms := map[string]map[string]bool{}
	if fd, _ := p.FuncDecl("net/edf", "", "decodeType"); fd != nil {
		ast.Inspect(fd.Body, func(n ast.Node) bool {
			cc, ok := n.(*ast.CaseClause)
			if !ok || len(cc.List) != 1 {
				return true
			}
			label := types.ExprString(cc.List[0])
			if !strings.HasPrefix(label, "edt") {
				return true
			}
			cmp := map[string]bool{}
			ast.Inspect(cc, func(m ast.Node) bool {
				be, ok := m.(*ast.BinaryExpr)
				if ok && (be.Op == token.NEQ || be.Op == token.EQL) {
					if id, ok := be.Y.(*ast.Ident); ok && strings.HasPrefix(id.Name, "edt") && id.Name != "edtNil" {
						if strings.HasPrefix(types.ExprString(be.X), "packet[0]") {
							cmp[id.Name] = true
						}
					}
				}
				return true
			})
			decArms[label] = cmp
			return false
		})
	}
	if len(encArms) == 0 || len(decArms) == 0 {
		r.Unk(rule, "C11.E7|arms", "", "", "composite encoders and decodeType arms found", fmt.Sprintf("encoder arms %d, decoder arms %d", len(encArms), len(decArms)))
		return
	}
	seen := map[string]bool{}
	for _, ea := range encArms {
		if seen[ea.head] {
			continue
		}
		seen[ea.head] = true
		key := "C11.E7|" + ea.head
		inst := "composite tag " + ea.head + ": the type prefix is unfolded by the decoder and value encoder and value decoder use the same tag"
		var probs []string
		da, ok := decArms[ea.head]
		if !ok {
			probs = append(probs, "the decoder's type unfolding has no arm for it: a value of such a type cannot be decoded")
		} else {
			for t := range ea.appends {
				if !da[t] {
					probs = append(probs, fmt.Sprintf("the value encoder appends %s but the value decoder checks %v", t, keysOf(da)))
				}
			}
		}
		if len(probs) > 0 {
			r.Bad(rule, key, "net/edf", p.Pos(ea.pos), inst, strings.Join(probs, "; "))
		} else {
			r.OK(rule, key, "net/edf", p.Pos(ea.pos), inst, fmt.Sprintf("encoder appends %v, decoder checks %v", keysOf(ea.appends), keysOf(da)))
		}
	}
}

func keysOf(m map[string]bool) []string {
	var ks []string
	for k := range m {
		ks = append(ks, k)
	}
	sort.Strings(ks)
	return ks
}

func typeOfArg(info *types.Info, e ast.Expr) string {
	// reflect.TypeOf(X) -> type of X ; identifiers anyType / errType
	if ce, ok := e.(*ast.CallExpr); ok && types.ExprString(ce.Fun) == "reflect.TypeOf" && len(ce.Args) == 1 {
		if t := info.TypeOf(ce.Args[0]); t != nil {
			return t.String()
		}
	}
	if se, ok := e.(*ast.SelectorExpr); ok && se.Sel.Name == "Type" {
		return "field:" + types.ExprString(se.X)
	}
	return types.ExprString(e)
}

// c11Registry: E1
func c11Registry(p *load.Program, r *core.Report) {
	rule := "C11.E1 registry-agreement"
	r.Floor(rule, 24)
	pk := p.Pkg("net/edf")
	info := pk.TypesInfo
	encs := map[string]edfReg{} // tag -> reg (first registration by tag+type)
	var encList []edfReg
	decs := map[string]edfReg{}
	decVar := map[string]edfReg{} // variable name -> (type, fn)
	for _, file := range pk.Syntax {
		for _, d := range file.Decls {
			fd, ok := d.(*ast.FuncDecl)
			if !ok || fd.Name.Name != "init" || fd.Body == nil {
				continue
			}
			ast.Inspect(fd.Body, func(n ast.Node) bool {
				switch s := n.(type) {
				case *ast.AssignStmt:
					// decX := &decoder{reflect.TypeOf(T), decodeX}
					if len(s.Lhs) == 1 && len(s.Rhs) == 1 {
						if ue, ok := s.Rhs[0].(*ast.UnaryExpr); ok {
							if cl, ok := ue.X.(*ast.CompositeLit); ok && types.ExprString(cl.Type) == "decoder" && len(cl.Elts) == 2 {
								id, _ := s.Lhs[0].(*ast.Ident)
								if id != nil {
									decVar[id.Name] = edfReg{typ: typeOfArg(info, cl.Elts[0]), fn: types.ExprString(cl.Elts[1]), pos: s.Pos()}
								}
							}
						}
					}
				case *ast.CallExpr:
					fun := types.ExprString(s.Fun)
					if fun == "encoders.Store" && len(s.Args) == 2 {
						if ue, ok := s.Args[1].(*ast.UnaryExpr); ok {
							if cl, ok := ue.X.(*ast.CompositeLit); ok {
								reg := edfReg{typ: typeOfArg(info, s.Args[0]), pos: s.Pos()}
								for _, el := range cl.Elts {
									kv, ok := el.(*ast.KeyValueExpr)
									if !ok {
										continue
									}
									switch types.ExprString(kv.Key) {
									case "Prefix":
										if pl, ok := kv.Value.(*ast.CompositeLit); ok && len(pl.Elts) == 1 {
											reg.tag = types.ExprString(pl.Elts[0])
										}
									case "Encode":
										reg.fn = types.ExprString(kv.Value)
									}
								}
								encList = append(encList, reg)
								if _, dup := encs[reg.tag]; !dup {
									encs[reg.tag] = reg
								}
							}
						}
					}
					if fun == "decoders.Store" && len(s.Args) == 2 {
						key := types.ExprString(s.Args[0])
						if strings.HasPrefix(key, "edt") {
							if id, ok := s.Args[1].(*ast.Ident); ok {
								if dv, ok := decVar[id.Name]; ok {
									dv.tag = key
									decs[key] = dv
								}
							}
						}
					}
				}
				return true
			})
		}
	}
	if len(encs) < 10 || len(decs) < 10 {
		r.Unk(rule, "C11.E1|tables", "", "", "the encoder and decoder registries are found in init()", fmt.Sprintf("encoders=%d decoders=%d", len(encs), len(decs)))
		return
	}
	// tag used inside a function: AppendByte(edtX) under encodeType / comparison t != edtX under decodeType
	tagInside := func(fn string) []string {
		var tags []string
		fd, _ := p.FuncDecl("net/edf", "", fn)
		if fd == nil {
			return nil
		}
		ast.Inspect(fd.Body, func(n ast.Node) bool {
			switch s := n.(type) {
			case *ast.CallExpr:
				if strings.HasSuffix(types.ExprString(s.Fun), ".AppendByte") && len(s.Args) == 1 {
					if id, ok := s.Args[0].(*ast.Ident); ok && strings.HasPrefix(id.Name, "edt") {
						tags = append(tags, id.Name)
					}
				}
			case *ast.BinaryExpr:
				if s.Op == token.NEQ || s.Op == token.EQL {
					for _, e := range []ast.Expr{s.X, s.Y} {
						if id, ok := e.(*ast.Ident); ok && strings.HasPrefix(id.Name, "edt") && id.Name != "edtNil" {
							tags = append(tags, id.Name)
						}
					}
				}
			}
			return true
		})
		return uniq(tags)
	}
	var tags []string
	seen := map[string]bool{}
	for t := range encs {
		if !seen[t] {
			seen[t] = true
			tags = append(tags, t)
		}
	}
	for t := range decs {
		if !seen[t] {
			seen[t] = true
			tags = append(tags, t)
		}
	}
	sort.Strings(tags)
	for _, t := range tags {
		e, hasE := encs[t]
		d, hasD := decs[t]
		key := "C11.E1|" + t
		inst := "wire tag " + t + ": registered encoder and decoder agree on the Go type, are a matching pair, and use this tag internally"
		var probs []string
		if !hasE {
			probs = append(probs, "a decoder is registered but no encoder emits this tag")
		}
		if !hasD {
			probs = append(probs, "an encoder emits this tag but no decoder is registered for it: the value cannot be decoded")
		}
		pos := e.pos
		if hasE && hasD {
			if e.typ != d.typ && !(strings.HasPrefix(d.typ, "anyType") || strings.HasPrefix(d.typ, "errType")) {
				probs = append(probs, fmt.Sprintf("encoder is registered for %s but the decoder under this tag produces %s", e.typ, d.typ))
			}
			if strings.TrimPrefix(e.fn, "encode") != strings.TrimPrefix(d.fn, "decode") {
				probs = append(probs, fmt.Sprintf("%s is paired with %s", e.fn, d.fn))
			}
			for _, it := range tagInside(e.fn) {
				if it != t && it != "edtNil" {
					probs = append(probs, fmt.Sprintf("%s appends tag %s but is registered under %s", e.fn, it, t))
				}
			}
			for _, it := range tagInside(d.fn) {
				if it != t && it != "edtNil" {
					probs = append(probs, fmt.Sprintf("%s checks tag %s but is registered under %s", d.fn, it, t))
				}
			}
		}
		if len(probs) > 0 {
			r.Bad(rule, key, e.fn, p.Pos(pos), inst, strings.Join(probs, "; "))
		} else {
			r.OK(rule, key, e.fn, p.Pos(pos), inst, fmt.Sprintf("%s <-> %s for %s", e.fn, d.fn, e.typ))
		}
	}
	// every encoder registration for an extra type (error types) reuses a tag that has a decoder
	for _, e := range encList {
		if _, ok := decs[e.tag]; !ok {
			r.Bad(rule, "C11.E1|extra|"+e.typ, e.fn, p.Pos(e.pos), "additional encoder registration has a decoder", "tag "+e.tag+" has no decoder")
		}
	}
}

// edfOps extracts the constant byte counts produced (encoder) or consumed (decoder) at the top
// level of a function body, skipping the `if state.encodeType/decodeType {…}` block.
type edfOps struct {
	consts []int // Extend(c) / AppendByte -> 1 / packet = packet[c(+l):]
	guards []int // len(packet) < c(+l)
	atoms  int   // writeAtom / readAtom calls
	vars   int   // variable-length appends / advances
}

func constPart(info *types.Info, e ast.Expr) (int, bool, bool) { // value, hasVar, ok
	e = ast.Unparen(e)
	if tv, ok := info.Types[e]; ok && tv.Value != nil {
		if v, ok := constant.Int64Val(constant.ToInt(tv.Value)); ok {
			return int(v), false, true
		}
	}
	if be, ok := e.(*ast.BinaryExpr); ok && be.Op == token.ADD {
		a, av, aok := constPart(info, be.X)
		b, bv, bok := constPart(info, be.Y)
		if aok && bok {
			return a + b, av || bv, true
		}
	}
	if _, ok := e.(*ast.Ident); ok {
		return 0, true, true
	}
	if ce, ok := e.(*ast.CallExpr); ok {
		if id, ok := ce.Fun.(*ast.Ident); ok {
			if id.Name == "len" {
				return 0, true, true
			}
			if len(ce.Args) == 1 {
				if tv, ok := info.Types[ce.Fun]; ok && tv.IsType() {
					return constPart(info, ce.Args[0])
				}
			}
		}
	}
	return 0, false, false
}

func extractEdfOps(info *types.Info, body *ast.BlockStmt, encoder bool, pkt string) edfOps {
	var ops edfOps
	if pkt == "" {
		pkt = "packet"
	}
	var walk func(list []ast.Stmt)
	handleExpr := func(e ast.Expr) {
		ast.Inspect(e, func(n ast.Node) bool {
			ce, ok := n.(*ast.CallExpr)
			if !ok {
				return true
			}
			fun := types.ExprString(ce.Fun)
			switch {
			case strings.HasSuffix(fun, ".Extend") && len(ce.Args) == 1:
				if c, hv, ok := constPart(info, ce.Args[0]); ok {
					ops.consts = append(ops.consts, c)
					if hv {
						ops.vars++
					}
				}
			case strings.HasSuffix(fun, ".AppendByte"):
				ops.consts = append(ops.consts, 1)
			case strings.HasSuffix(fun, ".AppendString") || (strings.HasSuffix(fun, ".Append") && !strings.HasPrefix(fun, "append")):
				ops.vars++
			case fun == "writeAtom" || fun == "readAtom":
				ops.atoms++
			}
			return true
		})
	}
	walk = func(list []ast.Stmt) {
		for _, s := range list {
			switch x := s.(type) {
			case *ast.IfStmt:
				cond := types.ExprString(x.Cond)
				if strings.Contains(cond, "encodeType") || strings.Contains(cond, "decodeType") {
					continue
				}
				// guards: len(packet) < c
				if be, ok := x.Cond.(*ast.BinaryExpr); ok && be.Op == token.LSS {
					if strings.HasPrefix(types.ExprString(be.X), "len("+pkt+")") {
						if c, _, ok := constPart(info, be.Y); ok {
							ops.guards = append(ops.guards, c)
						}
					}
				}
				if be, ok := x.Cond.(*ast.BinaryExpr); ok && be.Op == token.EQL && types.ExprString(be.X) == "len("+pkt+")" {
					if c, _, ok := constPart(info, be.Y); ok && c == 0 {
						ops.guards = append(ops.guards, 1)
					}
				}
				if x.Init != nil {
					if as, ok := x.Init.(*ast.AssignStmt); ok {
						for _, rhs := range as.Rhs {
							handleExpr(rhs)
						}
					}
				}
			case *ast.AssignStmt:
				// packet = packet[c:]
				if len(x.Lhs) == 1 && len(x.Rhs) == 1 && types.ExprString(x.Lhs[0]) == pkt {
					if se, ok := x.Rhs[0].(*ast.SliceExpr); ok && types.ExprString(se.X) == pkt && se.Low != nil && se.High == nil {
						if c, hv, ok := constPart(info, se.Low); ok {
							ops.consts = append(ops.consts, c)
							if hv {
								ops.vars++
							}
						}
						continue
					}
				}
				for _, rhs := range x.Rhs {
					handleExpr(rhs)
				}
			case *ast.ExprStmt:
				handleExpr(x.X)
			case *ast.ReturnStmt:
				for _, e := range x.Results {
					handleExpr(e)
				}
			}
		}
	}
	walk(body.List)
	return ops
}

// c11Widths: E2
func c11Widths(p *load.Program, r *core.Report) {
	rule := "C11.E2 width-agreement"
	r.Floor(rule, 22)
	pk := p.Pkg("net/edf")
	info := pk.TypesInfo
	encF := map[string]*ast.FuncDecl{}
	decF := map[string]*ast.FuncDecl{}
	for _, file := range pk.Syntax {
		for _, d := range file.Decls {
			fd, ok := d.(*ast.FuncDecl)
			if !ok || fd.Body == nil || fd.Recv != nil {
				continue
			}
			if strings.HasPrefix(fd.Name.Name, "encode") {
				encF[strings.TrimPrefix(fd.Name.Name, "encode")] = fd
			}
			if strings.HasPrefix(fd.Name.Name, "decode") {
				decF[strings.TrimPrefix(fd.Name.Name, "decode")] = fd
			}
		}
	}
	var names []string
	for n := range encF {
		if _, ok := decF[n]; ok {
			names = append(names, n)
		}
	}
	sort.Strings(names)
	skip := map[string]string{"Any": "dispatches to the dynamic type's codec", "Error": "two encodings (cache id / text) with a shared 2-byte discriminator: checked by E5", "Type": "type descriptors"}
	for _, n := range names {
		if _, s := skip[n]; s {
			continue
		}
		// the name of the decoder's input parameter (the []byte one)
		pkt := ""
		for _, fld := range decF[n].Type.Params.List {
			if t := info.TypeOf(fld.Type); t != nil && isByteSlice(t) && len(fld.Names) > 0 {
				pkt = fld.Names[0].Name
			}
		}
		e := extractEdfOps(info, encF[n].Body, true, "")
		d := extractEdfOps(info, decF[n].Body, false, pkt)
		key := "C11.E2|" + n
		inst := "encode" + n + " / decode" + n + ": constant byte counts produced equal constant byte counts consumed, each advance is guarded"
		ec := append([]int{}, e.consts...)
		dc := append([]int{}, d.consts...)
		sort.Ints(ec)
		sort.Ints(dc)
		var probs []string
		if fmt.Sprint(ec) != fmt.Sprint(dc) {
			probs = append(probs, fmt.Sprintf("encoder emits constant parts %v, decoder consumes %v: the decoder reads the following value from the wrong offset", ec, dc))
		}
		if e.atoms != d.atoms {
			probs = append(probs, fmt.Sprintf("encoder writes %d atom(s), decoder reads %d", e.atoms, d.atoms))
		}
		gc := append([]int{}, d.guards...)
		sort.Ints(gc)
		for _, c := range dc {
			found := false
			for _, g := range gc {
				if g == c {
					found = true
				}
			}
			if !found && c > 0 {
				probs = append(probs, fmt.Sprintf("the advance by %d bytes has no length guard of that size (guards: %v): a truncated input is sliced out of range", c, gc))
			}
		}
		for _, g := range gc {
			found := false
			for _, c := range dc {
				if g == c {
					found = true
				}
			}
			if !found {
				probs = append(probs, fmt.Sprintf("a length guard demands %d bytes but no field of that size is consumed (advances: %v): valid input is refused", g, dc))
			}
		}
		if len(probs) > 0 {
			r.Bad(rule, key, "encode"+n, p.Pos(encF[n].Pos()), inst, strings.Join(probs, "; "))
		} else {
			r.OK(rule, key, "encode"+n, p.Pos(encF[n].Pos()), inst, fmt.Sprintf("constant parts %v, atoms %d, variable parts %d/%d", ec, e.atoms, e.vars, d.vars))
		}
	}
}

// derivesFromWire: the value flows from a binary.BigEndian.UintN call or a byte of a []byte parameter.
func derivesFromWire(v ssa.Value, depth int) bool {
	if depth > 6 {
		return false
	}
	switch x := v.(type) {
	case *ssa.Call:
		if sf := staticCallee(x.Common()); sf != nil && sf.Pkg != nil && sf.Pkg.Pkg.Path() == "encoding/binary" && strings.HasPrefix(sf.Name(), "Uint") {
			return true
		}
	case *ssa.Convert:
		return derivesFromWire(x.X, depth+1)
	case *ssa.BinOp:
		return derivesFromWire(x.X, depth+1) || derivesFromWire(x.Y, depth+1)
	case *ssa.Phi:
		for _, e := range x.Edges {
			if derivesFromWire(e, depth+1) {
				return true
			}
		}
	case *ssa.UnOp:
		if x.Op == token.MUL {
			// captured / spilled local with a single store
			if c := canon(x); c != ssa.Value(x) {
				return derivesFromWire(c, depth+1)
			}
			if ia, ok := x.X.(*ssa.IndexAddr); ok {
				if s, ok := ia.X.Type().Underlying().(*types.Slice); ok {
					if b, ok := s.Elem().Underlying().(*types.Basic); ok && b.Kind() == types.Uint8 {
						return true
					}
				}
			}
		}
	}
	return false
}

// c11Narrow: E3
func c11Narrow(p *load.Program, r *core.Report) {
	rule := "C11.E3 length-limits"
	r.Floor(rule, 7)
	// (a) decode side: no +,* in a narrow unsigned type on a wire-derived value
	n := 0
	for _, f := range funcsOfPkgs(p, "net/edf", "net/proto", "net/handshake", "lib") {
		isDecodeSide := false
		rf := root(f)
		ln := strings.ToLower(rf.Name())
		if strings.Contains(ln, "decode") || strings.Contains(ln, "read") || strings.Contains(ln, "register") || strings.Contains(ln, "decompress") || strings.Contains(ln, "handle") || strings.Contains(ln, "unmarshal") || strings.Contains(ln, "serve") {
			isDecodeSide = true
		}
		if !isDecodeSide {
			continue
		}
		seq := 0
		eachInstr(f, func(in ssa.Instruction) {
			b, ok := in.(*ssa.BinOp)
			if !ok || (b.Op != token.ADD && b.Op != token.MUL && b.Op != token.SUB) {
				return
			}
			bt, ok := b.Type().Underlying().(*types.Basic)
			if !ok {
				return
			}
			switch bt.Kind() {
			case types.Uint8, types.Uint16, types.Uint32:
			default:
				return
			}
			if !derivesFromWire(b.X, 0) && !derivesFromWire(b.Y, 0) {
				return
			}
			// only when the result is used as a length (compared with len / converted to int / slice bound)
			n++
			seq++
			fn := fname(f)
			key := fmt.Sprintf("C11.E3|%s|narrow-arith#%d", fn, seq)
			r.Bad(rule, key, fn, p.Pos(b.Pos()), "no arithmetic in a narrow unsigned type on a decoded length",
				fmt.Sprintf("%s performed in %s on a value read from the wire: for lengths near the top of the field the result wraps, so values the encoder accepts are refused or mis-sliced by the decoder", b.Op, bt.Name()))
		})
	}
	if n == 0 {
		r.OK(rule, "C11.E3|narrow-arith", "", "", "no arithmetic in a narrow unsigned type on a decoded length", "decode-side functions of net/edf, net/proto, net/handshake, lib scanned: none")
	}
	// (b) encode side: len converted to uintN is guarded by a limit <= max(uintN)
	for _, f := range funcsOfPkgs(p, "net/edf") {
		if !strings.HasPrefix(root(f).Name(), "encode") && root(f).Name() != "writeAtom" && root(f).Name() != "regEncoder" {
			continue
		}
		seq := 0
		eachInstr(f, func(in ssa.Instruction) {
			cv, ok := in.(*ssa.Convert)
			if !ok {
				return
			}
			bt, ok := cv.Type().Underlying().(*types.Basic)
			if !ok {
				return
			}
			var max int64
			switch bt.Kind() {
			case types.Uint8:
				max = 255
			case types.Uint16:
				max = 65535
			case types.Uint32:
				max = 4294967295
			default:
				return
			}
			// operand is a len(...) value
			isLen := false
			var lenv ssa.Value = cv.X
			if c, ok := cv.X.(*ssa.Call); ok {
				if bi, ok := c.Common().Value.(*ssa.Builtin); ok && bi.Name() == "len" {
					isLen = true
				}
			}
			if !isLen {
				return
			}
			seq++
			fn := fname(f)
			key := fmt.Sprintf("C11.E3|%s|len-to-%s#%d", fn, bt.Name(), seq)
			inst := "a length written into a " + bt.Name() + " wire field is refused by the encoder when it does not fit"
			// guard: If (lenv > C) on a dominating block with C <= max, whose true edge returns an error;
			// the same length may be computed twice (len(x) is pure): accept a guard on any len() of the same operand
			guard := int64(-1)
			sameLen := func(v ssa.Value) bool {
				if v == lenv {
					return true
				}
				c1, ok1 := v.(*ssa.Call)
				c2, ok2 := lenv.(*ssa.Call)
				if ok1 && ok2 {
					if b1, ok := c1.Common().Value.(*ssa.Builtin); ok && b1.Name() == "len" {
						return c1.Common().Args[0] == c2.Common().Args[0]
					}
				}
				return false
			}
			for _, g := range family(root(f)) {
				eachInstr(g, func(in2 ssa.Instruction) {
					b, ok := in2.(*ssa.BinOp)
					if !ok || b.Op != token.GTR {
						return
					}
					if c, ok := constInt(b.Y); ok && sameLen(b.X) {
						if g == f && !b.Block().Dominates(cv.Block()) {
							return
						}
						guard = c
					}
				})
			}
			// guard applied to the converted value itself (l := uint16(len(x)); if l > C)
			if guard < 0 {
				if refs := cv.Referrers(); refs != nil {
					for _, rf := range *refs {
						if b, ok := rf.(*ssa.BinOp); ok && b.Op == token.GTR && b.X == ssa.Value(cv) {
							if c, ok := constInt(b.Y); ok {
								guard = c
							}
						}
					}
				}
			}
			// callers may guard (writeAtom is called after len(x) > 255 checks): accept if every caller guards — approximated by name
			if guard < 0 && root(f).Name() == "writeAtom" {
				r.OK(rule, key, fn, p.Pos(cv.Pos()), inst, "helper: its callers check len > 255 before calling (E5 checks those guards)")
				return
			}
			switch {
			case guard < 0:
				if max == 255 {
					r.OK(rule, key, fn, p.Pos(cv.Pos()), inst, "single byte length of a bounded marshalled form")
				} else {
					r.Bad(rule, key, fn, p.Pos(cv.Pos()), inst, "no guard on the length before it is truncated to "+bt.Name()+": longer values produce bytes that do not decode")
				}
			case guard > max:
				r.Bad(rule, key, fn, p.Pos(cv.Pos()), inst, fmt.Sprintf("the encoder accepts lengths up to %d but the field holds at most %d", guard, max))
			default:
				r.OK(rule, key, fn, p.Pos(cv.Pos()), inst, fmt.Sprintf("guard len > %d (field max %d)", guard, max))
			}
		})
	}
}

// c11Format: E4
func c11Format(p *load.Program, r *core.Report) {
	rule := "C11.E4 no-dynamic-format"
	r.Floor(rule, 40)
	fmtFuncs := map[string]int{"Errorf": 0, "Sprintf": 0, "Printf": 0, "Fprintf": 1}
	for _, f := range funcsOfPkgs(p, "net/edf", "net/proto", "net/handshake") {
		seq := 0
		eachInstr(f, func(in ssa.Instruction) {
			cc := callCommon(in)
			if cc == nil {
				return
			}
			sf := staticCallee(cc)
			if sf == nil || sf.Pkg == nil || sf.Pkg.Pkg.Path() != "fmt" {
				return
			}
			idx, ok := fmtFuncs[sf.Name()]
			if !ok || len(cc.Args) <= idx {
				return
			}
			seq++
			fn := fname(f)
			key := fmt.Sprintf("C11.E4|%s|%s#%d", fn, sf.Name(), seq)
			inst := "format string of fmt." + sf.Name() + " is a constant"
			if _, isConst := cc.Args[idx].(*ssa.Const); isConst {
				r.OK(rule, key, fn, p.Pos(in.Pos()), inst, "constant")
			} else {
				r.Bad(rule, key, fn, p.Pos(in.Pos()), inst, "the format string is computed at run time ("+reasonOrigin(cc.Args[idx], 0)+"): text containing '%' comes back mangled, decoded bytes are interpreted as verbs")
			}
		})
	}
}

// c11Discriminators: E5
func c11Discriminators(p *load.Program, r *core.Report) {
	rule := "C11.E5 discriminator-constants"
	r.Floor(rule, 3)
	pk := p.Pkg("net/edf")
	info := pk.TypesInfo
	// collect `X > C` comparisons per function (AST, constants folded)
	cmp := map[string][]int64{} // function -> constants compared with >
	eqs := map[string][]int64{}
	for _, file := range pk.Syntax {
		for _, d := range file.Decls {
			fd, ok := d.(*ast.FuncDecl)
			if !ok || fd.Body == nil {
				continue
			}
			ast.Inspect(fd.Body, func(n ast.Node) bool {
				be, ok := n.(*ast.BinaryExpr)
				if !ok {
					return true
				}
				if tv, ok := info.Types[be.Y]; ok && tv.Value != nil {
					if v, ok := constant.Int64Val(constant.ToInt(tv.Value)); ok {
						switch be.Op {
						case token.GTR:
							cmp[fd.Name.Name] = append(cmp[fd.Name.Name], v)
						case token.EQL:
							eqs[fd.Name.Name] = append(eqs[fd.Name.Name], v)
						}
					}
				}
				return true
			})
		}
	}
	globalInit := func(name string) (int64, bool) {
		for _, file := range pk.Syntax {
			for _, d := range file.Decls {
				gd, ok := d.(*ast.GenDecl)
				if !ok || gd.Tok != token.VAR {
					continue
				}
				for _, sp := range gd.Specs {
					vs := sp.(*ast.ValueSpec)
					for i, id := range vs.Names {
						if id.Name == name && i < len(vs.Values) {
							if tv, ok := info.Types[vs.Values[i]]; ok && tv.Value != nil {
								return constant.Int64Val(constant.ToInt(tv.Value))
							}
						}
					}
				}
			}
		}
		return 0, false
	}
	has := func(fn string, c int64) bool {
		for _, v := range cmp[fn] {
			if v == c {
				return true
			}
		}
		return false
	}
	type fam struct {
		name  string
		alloc string
		sites []string // functions that must compare with the family constant
		nilv  int64
	}
	fams := []fam{
		{"atom (length <= N is inline text, id > N is a cache id)", "atomCacheID", []string{"writeAtom", "readAtom", "encodeAtom"}, -1},
		{"error (length <= N is inline text, id > N is a cache id, 65535 is nil)", "errCacheID", []string{"encodeError", "decodeError"}, 65535},
		{"registered type name (length <= N is inline name, id > N is a cache id)", "regCacheID", []string{"getRegDecoder", "regEncoder"}, -1},
	}
	for _, fm := range fams {
		key := "C11.E5|" + fm.alloc
		inst := "discriminator of " + fm.name + " is the same constant in encoder, decoder and allocator"
		n, ok := globalInit(fm.alloc)
		if !ok {
			r.Unk(rule, key, "", "", inst, "allocator start "+fm.alloc+" not found")
			continue
		}
		var probs []string
		for _, s := range fm.sites {
			if !has(s, n) {
				probs = append(probs, fmt.Sprintf("%s does not compare with %d (it compares with %v)", s, n, cmp[s]))
			}
			// and with nothing else: a second threshold in the same function (the length test of
			// one value, the id test of another) must be the same boundary
			for _, v := range cmp[s] {
				if v != n && v != fm.nilv && v != fm.nilv-1 {
					probs = append(probs, fmt.Sprintf("%s also compares with %d", s, v))
				}
			}
		}
		if fm.nilv >= 0 {
			okNil := false
			for _, v := range eqs["decodeError"] {
				if v == fm.nilv {
					okNil = true
				}
			}
			if !okNil {
				probs = append(probs, "decoder does not recognise the nil marker 65535")
			}
			// allocator must stay below the nil marker
			if !has("addErrCache", fm.nilv-1) {
				probs = append(probs, "the error id allocator does not stop below the nil marker")
			}
		}
		if len(probs) > 0 {
			r.Bad(rule, key, "", "", inst, strings.Join(probs, "; ")+": a value near the boundary is written one way and read the other")
		} else {
			r.OK(rule, key, "", "", inst, fmt.Sprintf("constant %d at %s and the allocator", n, strings.Join(fm.sites, ", ")))
		}
	}
}

// c11CacheDirection: E6
func c11CacheDirection(p *load.Program, r *core.Report) {
	rule := "C11.E6 cache-direction"
	r.Floor(rule, 12)
	// in net/handshake: calls makeEncodeXCache(arg) must take a field of the LOCAL introduce message
	// and makeDecodeXCache(arg) a field of the PEER's introduce; local = the MessageIntroduce this
	// function builds and sends, peer = the one it decodes (result of a type assertion on a decoded message).
	for _, f := range funcsOfPkgs(p, "net/handshake") {
		seq := 0
		eachInstr(f, func(in ssa.Instruction) {
			cc := callCommon(in)
			if cc == nil {
				return
			}
			sf := staticCallee(cc)
			if sf == nil || !strings.HasPrefix(sf.Name(), "make") || !strings.HasSuffix(sf.Name(), "Cache") {
				return
			}
			enc := strings.HasPrefix(sf.Name(), "makeEncode")
			dec := strings.HasPrefix(sf.Name(), "makeDecode")
			if !enc && !dec {
				return
			}
			seq++
			fn := fname(f)
			key := fmt.Sprintf("C11.E6|%s|%s#%d", fn, sf.Name(), seq)
			inst := sf.Name() + " is fed from the right side's cache tables"
			// classify each argument: value loaded from a field of a struct that came out of a TypeAssert (peer) or of a local composite (local)
			classify := func(v ssa.Value) string {
				base, path, ok := fieldPath(v)
				if !ok {
					return "?"
				}
				_ = path
				switch b := base.(type) {
				case *ssa.Alloc:
					// local variable: look at its stores
					for _, rf := range *b.Referrers() {
						if st, ok := rf.(*ssa.Store); ok && st.Addr == ssa.Value(b) {
							if _, isTA := st.Val.(*ssa.TypeAssert); isTA {
								return "peer"
							}
							if ex, ok := st.Val.(*ssa.Extract); ok {
								if _, isTA := ex.Tuple.(*ssa.TypeAssert); isTA {
									return "peer"
								}
							}
						}
					}
					return "local"
				case *ssa.TypeAssert:
					return "peer"
				case *ssa.Extract:
					if _, isTA := b.Tuple.(*ssa.TypeAssert); isTA {
						return "peer"
					}
				}
				return "?"
			}
			args := cc.Args[1:]
			var kinds []string
			for _, a := range args {
				kinds = append(kinds, classify(a))
			}
			want := "local"
			if dec {
				want = "peer"
			}
			okAll := true
			if dec && len(args) == 2 {
				// makeDecodeErrCache(local, remote)
				okAll = kinds[0] == "local" && kinds[1] == "peer"
			} else {
				for _, k := range kinds {
					if k != want {
						okAll = false
					}
				}
			}
			if okAll {
				r.OK(rule, key, fn, p.Pos(in.Pos()), inst, "arguments: "+strings.Join(kinds, ", "))
			} else {
				r.Bad(rule, key, fn, p.Pos(in.Pos()), inst, "arguments come from "+strings.Join(kinds, ", ")+" (expected "+want+"): ids of one node's table are resolved with the other node's table")
			}
		})
	}
}

var _ = load.Module

// c11ElementFlagReset: E10 — the 'write the type header' flag of the shared encode state is sticky:
// encoding an interface-typed value sets it and nothing clears it. Every composite encoder therefore
// resets it before each element it encodes. In every loop of net/edf that calls an element
// encoder (the Encode function field of an *encoder), each such call is reached — from the loop
// header and from every other element-encoder call of the loop — only through a store of false to
// the flag. A missing reset between a map's key and its value makes the value carry a type header
// the decoder does not expect, for exactly the maps whose key is interface-typed.
func c11ElementFlagReset(p *load.Program, r *core.Report) {
	rule := "C11.E10 element-type-flag-reset"
	r.Floor(rule, 9)
	for _, f := range funcsOfPkgs(p, "net/edf") {
		isElemEncode := func(in ssa.Instruction) bool {
			c, ok := in.(*ssa.Call)
			if !ok || c.Common().IsInvoke() || c.Common().StaticCallee() != nil {
				return false
			}
			ld, ok := c.Common().Value.(*ssa.UnOp)
			if !ok || ld.Op != token.MUL {
				return false
			}
			own, fl := fieldOwner(ld.X)
			return own != nil && own.Obj().Name() == "encoder" && fl == "Encode"
		}
		isReset := func(in ssa.Instruction) bool {
			st, ok := in.(*ssa.Store)
			if !ok {
				return false
			}
			if _, fl := fieldOwner(st.Addr); fl != "encodeType" {
				return false
			}
			b, okb := constBool(st.Val)
			return okb && !b
		}
		var calls []ssa.Instruction
		eachInstr(f, func(in ssa.Instruction) {
			if isElemEncode(in) && loopHeaderOf(in) != nil {
				calls = append(calls, in)
			}
		})
		seq := 0
		for _, c := range calls {
			seq++
			fn := fname(f)
			key := fmt.Sprintf("C11.E10|%s|element#%d", fn, seq)
			inst := "the element encoder is called with the type-header flag freshly cleared"
			hdr := loopHeaderOf(c)
			starts := []Point{{hdr, 0}}
			for _, o := range calls {
				if loopHeaderOf(o) == hdr {
					starts = append(starts, after(o))
				}
			}
			bad := false
			for _, s := range starts {
				for _, hit := range walkAvoid([]Point{s}, func(in ssa.Instruction) bool {
					return isReset(in) || (isElemEncode(in) && in != c)
				}, func(in ssa.Instruction) bool { return in == c }) {
					_ = hit
					bad = true
				}
			}
			if bad {
				r.Bad(rule, key, fn, p.Pos(c.Pos()), inst, "the call is reachable from the loop header or from the previous element's encoder without state.encodeType = false: after an interface-typed element (which sets the flag) this element is written with a type header the decoder does not expect")
			} else {
				r.OK(rule, key, fn, p.Pos(c.Pos()), inst, "every path to the call inside the loop passes the reset, no other element encoder in between")
			}
		}
	}
}

// c11DecodeCacheKeys: E6b — a decode cache translates the ids the PEER uses on the wire. In every
// makeDecode*Cache builder each entry is stored under a key taken from ranging over the peer's table
// (the last map parameter), and its value never comes from indexing the local table by that id:
// ids are assigned per process in registration order, only the text identifies a registered error.
func c11DecodeCacheKeys(p *load.Program, r *core.Report) {
	rule := "C11.E6b decode-cache-keyed-by-peer-ids"
	r.Floor(rule, 3)
	for _, f := range funcsOfPkgs(p, "net/handshake") {
		if f.Parent() != nil || !strings.HasPrefix(f.Name(), "makeDecode") || !strings.HasSuffix(f.Name(), "Cache") {
			continue
		}
		var maps []*ssa.Parameter
		for _, pa := range f.Params {
			if _, ok := pa.Type().Underlying().(*types.Map); ok {
				maps = append(maps, pa)
			}
		}
		fn := fname(f)
		key := "C11.E6b|" + fn
		inst := "entries are stored under the ids found in the peer's table; a local error is chosen by its text, not by its local id"
		if len(maps) == 0 {
			r.Unk(rule, key, fn, p.Pos(f.Pos()), inst, "no map parameter")
			continue
		}
		remote := maps[len(maps)-1]
		rangeOf := func(v ssa.Value) (ssa.Value, int) { // the ranged map and the tuple index (1 key, 2 value)
			v = stripIface(v)
			ex, ok := v.(*ssa.Extract)
			if !ok {
				return nil, 0
			}
			nx, ok := ex.Tuple.(*ssa.Next)
			if !ok {
				return nil, 0
			}
			rg, ok := nx.Iter.(*ssa.Range)
			if !ok {
				return nil, 0
			}
			return rg.X, ex.Index
		}
		var probs []string
		n := 0
		eachInstr(f, func(in ssa.Instruction) {
			cc := callCommon(in)
			if cc == nil {
				return
			}
			if m, ok := syncMapCall(cc); !ok || m != "Store" || len(cc.Args) < 3 {
				return
			}
			n++
			if m, idx := rangeOf(cc.Args[1]); m != ssa.Value(remote) || idx != 1 {
				probs = append(probs, "the entry stored at "+p.Pos(in.Pos())+" is not keyed by an id ranged from the peer's table")
			}
			// the value must not be local[id]
			val := stripIface(cc.Args[2])
			if lk, ok := val.(*ssa.Lookup); ok {
				for _, lm := range maps[:len(maps)-1] {
					if lk.X == ssa.Value(lm) {
						probs = append(probs, "the value stored at "+p.Pos(in.Pos())+" is the local table indexed by id")
					}
				}
			}
			if m, idx := rangeOf(val); m != nil && m != ssa.Value(remote) && idx == 2 {
				// value ranged from the local table, stored under ...? only allowed when the key came from the peer's table via text (not expressible here)
				probs = append(probs, "the value stored at "+p.Pos(in.Pos())+" is ranged from the local table (paired with its local id)")
			}
		})
		if n == 0 {
			r.Unk(rule, key, fn, p.Pos(f.Pos()), inst, "no Store into the cache found")
			continue
		}
		if len(probs) > 0 {
			r.Bad(rule, key, fn, p.Pos(f.Pos()), inst, strings.Join(probs, "; ")+": ids differ between two nodes that registered their errors/types in another order — the peer's id N then decodes as our N (another error)")
		} else {
			r.OK(rule, key, fn, p.Pos(f.Pos()), inst, fmt.Sprintf("%d Store(s), each keyed by the peer's id", n))
		}
	}
}

// c11StaleWindow: E11 — (*lib.Buffer).Extend(n) returns a window into the buffer's CURRENT array.
// Anything that may grow the same buffer afterwards (its own appending methods, or handing the
// buffer to another function) may move the data to a new array; a write through the old window then
// lands in the abandoned array and the bytes in the packet stay zero/stale (a length prefix that
// does not match what follows: the value encodes but does not decode). Every write through an
// Extend window is reached from the Extend without passing a possible growth of that buffer.
func c11StaleWindow(p *load.Program, r *core.Report) {
	rule := "C11.E11 no-write-through-a-stale-buffer-window"
	r.Floor(rule, 25)
	bufT := p.Named("lib", "Buffer")
	isBuf := func(v ssa.Value) bool {
		pt, ok := v.Type().(*types.Pointer)
		return ok && pt.Elem() == types.Type(bufT)
	}
	for _, f := range funcsOfPkgs(p, "net/edf", "net/proto", "net/handshake") {
		seq := 0
		eachInstr(f, func(in ssa.Instruction) {
			c, ok := in.(*ssa.Call)
			if !ok {
				return
			}
			sf := staticCallee(c.Common())
			if sf == nil || !recvIs(sf, bufT) || sf.Name() != "Extend" {
				return
			}
			b := c.Common().Args[0]
			seq++
			fn := fname(f)
			key := fmt.Sprintf("C11.E11|%s|window#%d", fn, seq)
			inst := "the window returned by Extend is written before anything can grow the buffer"
			mayGrow := func(x ssa.Instruction) bool {
				if x == in {
					return false
				}
				cc := callCommon(x)
				if cc == nil {
					return false
				}
				if g := staticCallee(cc); g != nil && recvIs(g, bufT) {
					if len(cc.Args) > 0 && cc.Args[0] == b {
						switch g.Name() {
						case "Len", "Cap", "Reset":
							return false
						}
						return true
					}
					return false
				}
				for _, a := range cc.Args {
					if sa := stripIface(a); sa == b && isBuf(sa) { // also handed over as io.Writer
						return true
					}
				}
				return false
			}
			// uses of the window (and of slices of it)
			win := map[ssa.Value]bool{c: true}
			for changed := true; changed; {
				changed = false
				for w := range win {
					if refs := w.Referrers(); refs != nil {
						for _, rf := range *refs {
							if sl, ok := rf.(*ssa.Slice); ok && !win[sl] {
								win[sl] = true
								changed = true
							}
						}
					}
				}
			}
			var bad []string
			for w := range win {
				refs := w.Referrers()
				if refs == nil {
					continue
				}
				for _, rf := range *refs {
					isWrite := false
					switch x := rf.(type) {
					case *ssa.IndexAddr:
						if x.Referrers() != nil {
							for _, r2 := range *x.Referrers() {
								if st, ok := r2.(*ssa.Store); ok && st.Addr == ssa.Value(x) {
									isWrite = true
								}
							}
						}
					case *ssa.Call:
						isWrite = true // PutUintN(window, …), copy(window, …)
					}
					if !isWrite {
						continue
					}
					use := rf
					// a growth reachable between the Extend and this use?
					for _, g := range walkAvoid([]Point{after(in)}, func(x ssa.Instruction) bool { return x == use }, mayGrow) {
						if instrReachable(g, use) {
							bad = append(bad, fmt.Sprintf("written at %s after the buffer may have grown at %s", p.Pos(use.Pos()), p.Pos(g.Pos())))
						}
					}
				}
			}
			if len(bad) > 0 {
				sort.Strings(bad)
				r.Bad(rule, key, fn, p.Pos(in.Pos()), inst, uniq(bad)[0]+": when the buffer is reallocated in between, the write goes to the old array and the packet keeps stale bytes there")
			} else {
				r.OK(rule, key, fn, p.Pos(in.Pos()), inst, "no possible growth of the buffer between Extend and the writes through its window")
			}
		})
	}
}

// c11UnfoldRemainder: E13 — a folded type is a prefix code: the type of a map is its tag followed
// by the key type followed by the value type. The unfolding of the key type therefore has to hand
// back what it did not consume. Every successful return of decodeType carries the remainder of the
// fold (never a constant nil), except the cache hit for a complete fold; and the caller that passes
// a complete fold (getDecoder) checks that nothing is left.
func c11UnfoldRemainder(p *load.Program, r *core.Report) {
	rule := "C11.E13 type-unfolding-hands-back-the-remainder"
	r.Floor(rule, 5)
	f := p.Func("net/edf", "", "decodeType")
	if f == nil {
		r.Unk(rule, "C11.E13|decodeType", "", "", "decodeType found", "not found")
		return
	}
	seq := 0
	eachInstr(f, func(in ssa.Instruction) {
		rt, ok := in.(*ssa.Return)
		if !ok || len(rt.Results) != 3 || errKind(rt.Results[2]) != "nil" {
			return
		}
		seq++
		key := fmt.Sprintf("C11.E13|%s|return#%d", fname(f), seq)
		inst := "a successful unfolding returns the rest of the folded type to its caller"
		rest := unspill(rt.Results[1])
		c, isConst := rest.(*ssa.Const)
		if !isConst || c.Value != nil {
			r.OK(rule, key, fname(f), p.Pos(in.Pos()), inst, "the second result is a slice of the fold")
			return
		}
		// constant nil: only for a cache hit of the complete fold
		hit := false
		eachInstr(f, func(x ssa.Instruction) {
			cc := callCommon(x)
			if cc == nil {
				return
			}
			if m, ok := syncMapCall(cc); ok && m == "Load" {
				if v, isV := x.(ssa.Value); isV {
					if okv := tupleExtract(v, 1); okv != nil {
						t, _, _ := boolEdges(okv)
						if len(t) > 0 && edgesDominate(t, in) {
							hit = true
						}
					}
				}
			}
		})
		if hit {
			r.OK(rule, key, fname(f), p.Pos(in.Pos()), inst, "cache hit for a complete fold: nothing is left")
		} else {
			r.Bad(rule, key, fname(f), p.Pos(in.Pos()), inst, "this arm returns a nil remainder: when its type is the KEY type of a map the value type that follows is lost (or rejected as 'extra data') — a map with such a key encodes but does not decode")
		}
	})
	// the caller with a complete fold checks the remainder
	if g := p.Func("net/edf", "", "getDecoder"); g != nil {
		eachInstr(g, func(in ssa.Instruction) {
			c, ok := in.(*ssa.Call)
			if !ok || staticCallee(c.Common()) != f {
				return
			}
			key := "C11.E13|" + fname(g) + "|complete-fold"
			inst := "the caller that passes a complete folded type checks that nothing is left over"
			rest := tupleExtract(c, 1)
			okc := false
			if rest != nil {
				if refs := rest.Referrers(); refs != nil {
					for _, rf := range *refs {
						if cc := callCommon(rf.(ssa.Instruction)); cc != nil {
							if b, ok := cc.Value.(*ssa.Builtin); ok && b.Name() == "len" {
								okc = true
							}
						}
					}
				}
			}
			if okc {
				r.OK(rule, key, fname(g), p.Pos(in.Pos()), inst, "len(rest) is examined")
			} else {
				r.Bad(rule, key, fname(g), p.Pos(in.Pos()), inst, "the remainder is ignored: trailing bytes in a folded type sent by the peer are accepted silently")
			}
		})
	}
}

// c11NoProgressElements: E12 — the decoders check a declared element count against the bytes that are
// left, which is only meaningful when every element takes at least one byte. Wherever a slice or
// array coder is built for an element type (encoder, registration, unfolding), the predicate "the
// values of this type take no bytes on the wire" has been consulted and its true edge leaves with an
// error: such a slice would encode to bytes that do not decode, and a nested array of them makes the
// decoder spin for 2^32 rounds on twenty bytes.
func c11NoProgressElements(p *load.Program, r *core.Report, rule, rid string) {
	r.Floor(rule, 12)
	var pred *ssa.Function
	for _, f := range funcsOfPkgs(p, "net/edf") {
		if f.Parent() != nil || len(f.Params) != 1 || f.Params[0].Type().String() != "reflect.Type" || f.Signature.Results().Len() != 1 || f.Signature.Results().At(0).Type().String() != "bool" {
			continue
		}
		size := false
		eachInstr(f, func(in ssa.Instruction) {
			if cc := callCommon(in); cc != nil && cc.IsInvoke() && cc.Method.Name() == "Size" {
				size = true
			}
		})
		if size {
			pred = f
		}
	}
	if pred == nil {
		r.Bad(rule, rid+"|predicate", "", "", "a zero-wire-size predicate exists in net/edf", "none: slices/arrays of struct{} or [0]T are accepted by the encoder although they do not decode, and the decoder loops over peer-declared counts of elements that consume no input")
		return
	}
	seq := map[string]int{}
	for _, f := range funcsOfPkgs(p, "net/edf") {
		eachInstr(f, func(in ssa.Instruction) {
			c, ok := in.(*ssa.Call)
			if !ok || staticCallee(c.Common()) != pred || f == pred {
				return
			}
			fn := fname(f)
			seq[fn]++
			key := fmt.Sprintf("%s|%s|guard#%d", rid, fn, seq[fn])
			inst := "an element type that takes no bytes on the wire is refused with an error"
			// the true edge (possibly conjoined with `len > 0`) must not reach a successful return
			t, _, complete := boolEdges(c)
			if !complete || len(t) == 0 {
				r.Unk(rule, key, fn, p.Pos(in.Pos()), inst, "the predicate's result is not a plain branch condition")
				return
			}
			var pts []Point
			for _, e := range t {
				b := e.To()
				// `pred(t) && n > 0`: the true edge enters a block that only evaluates the next
				// conjunct; the refusal is on that block's true edge
				for k := 0; k < 3; k++ {
					pure := len(b.Instrs) > 0
					for _, x := range b.Instrs {
						switch x.(type) {
						case *ssa.BinOp, *ssa.UnOp, *ssa.If, *ssa.Convert, *ssa.FieldAddr, *ssa.DebugRef:
						case *ssa.Call:
							if cc := callCommon(x); cc == nil || !cc.IsInvoke() || (cc.Method.Name() != "Len" && cc.Method.Name() != "Size") {
								pure = false
							}
						default:
							pure = false
						}
					}
					if _, isIf := b.Instrs[len(b.Instrs)-1].(*ssa.If); pure && isIf && len(b.Succs) == 2 {
						b = b.Succs[0]
						continue
					}
					break
				}
				pts = append(pts, Point{b, 0})
			}
			// allowed: a further `&& n > 0` test; then an error return
			idx := errResultIndex(f)
			bad := false
			for _, rt := range walkAvoid(pts, func(x ssa.Instruction) bool {
				// stop at coder construction: reaching it from the true edge is the violation
				cc := callCommon(x)
				if cc == nil {
					return false
				}
				if sf := staticCallee(cc); sf != nil && sf.Pkg != nil && sf.Pkg.Pkg.Path() == "reflect" && (sf.Name() == "SliceOf" || sf.Name() == "ArrayOf") {
					bad = true
					return true
				}
				return false
			}, isReturn) {
				if idx >= 0 && errKind(rt.(*ssa.Return).Results[idx]) == "nil" {
					// a nil-error return reachable from the true edge without another condition in between?
					if b := rt.Block(); len(b.Preds) == 1 && edgesDominate(t, rt) {
						bad = true
					}
				}
			}
			if bad {
				r.Bad(rule, key, fn, p.Pos(in.Pos()), inst, "on the edge where the element type takes no bytes the coder is built all the same")
			} else {
				r.OK(rule, key, fn, p.Pos(in.Pos()), inst, "the true edge leads to an error return (after the optional length test)")
			}
		})
	}
	// the unfolding arms that make counted-element types are all guarded
	if f := p.Func("net/edf", "", "decodeType"); f != nil {
		n := 0
		eachInstr(f, func(in ssa.Instruction) {
			cc := callCommon(in)
			if cc == nil {
				return
			}
			sf := staticCallee(cc)
			if sf == nil || sf.Pkg == nil || sf.Pkg.Pkg.Path() != "reflect" || (sf.Name() != "SliceOf" && sf.Name() != "ArrayOf") {
				return
			}
			n++
			key := fmt.Sprintf("%s|%s|%s#%d", rid, fname(f), sf.Name(), n)
			inst := "reflect." + sf.Name() + " of a peer-declared element type is reached only after the zero-wire-size predicate said no"
			elem := cc.Args[len(cc.Args)-1]
			ok := false
			eachInstr(f, func(x ssa.Instruction) {
				c, isCall := x.(*ssa.Call)
				if !isCall || staticCallee(c.Common()) != pred || !sameTypeValue(c.Common().Args[0], elem) {
					return
				}
				t, fl, complete := boolEdges(c)
				if !complete {
					return
				}
				// either the false edge dominates, or every path through the true edge passes another test (n > 0) first
				if edgesDominate(fl, in) || reaches(edgePoints(t), nil, func(y ssa.Instruction) bool { return y == in }) == nil || instrDominates(x, in) {
					ok = true
				}
			})
			if ok {
				r.OK(rule, key, fname(f), p.Pos(in.Pos()), inst, "predicate consulted on the element type before")
			} else {
				r.Bad(rule, key, fname(f), p.Pos(in.Pos()), inst, "no zero-wire-size test of the element type: a folded type [64K][64K][0]int makes the decoder loop 2^32 times on a 20 byte packet")
			}
		})
	}
}

func edgePoints(es []Edge) []Point {
	var out []Point
	for _, e := range es {
		out = append(out, Point{e.To(), 0})
	}
	return out
}
