package rules

import (
	"fmt"
	"go/ast"
	"go/constant"
	"go/token"
	"go/types"
	"sort"
	"strings"

	"golang.org/x/tools/go/packages"

	"verif/internal/load"
)

// off is a byte offset: constant part plus an optional symbolic length ("+L").
type off struct {
	c   int
	sym bool
	ok  bool
}

func (o off) String() string {
	if !o.ok {
		return "?"
	}
	if o.sym {
		return fmt.Sprintf("%d+L", o.c)
	}
	return fmt.Sprint(o.c)
}

// lfield is one fixed field of a frame, as written or as read.
type lfield struct {
	lo, hi  off    // hi.ok==false: open ended (tail)
	kind    string // "pid-id", "alias-id[k]", "ref-id[k]", "byte", "u16", "u32", "u64", "bytes", "payload"
	owner   string // "self" | "peer" | "" (from the side that produced this description)
	expr    string
	cond    bool   // written/read conditionally
	varName string // name of the value's carrier on its side
	pos     token.Pos
}

func (f lfield) rng() string {
	if !f.hi.ok {
		return fmt.Sprintf("[%s:]", f.lo)
	}
	return fmt.Sprintf("[%s:%s]", f.lo, f.hi)
}

type frameLayout struct {
	konst   string
	fn      string
	pos     token.Pos
	fields  []lfield
	alloc   off // writer: Allocate(n)
	payload off // reader: Decode(buf.B[n:]) / data = buf.B[n:]
	guards  []int
}

type layoutCtx struct {
	pk   *packages.Package
	info *types.Info
	prog *load.Program
}

func (lc *layoutCtx) evalOff(e ast.Expr) off {
	e = ast.Unparen(e)
	if tv, ok := lc.info.Types[e]; ok && tv.Value != nil {
		if v, ok := constant.Int64Val(constant.ToInt(tv.Value)); ok {
			return off{c: int(v), ok: true}
		}
	}
	switch x := e.(type) {
	case *ast.BinaryExpr:
		if x.Op == token.ADD {
			a, b := lc.evalOff(x.X), lc.evalOff(x.Y)
			if a.ok && b.ok && !(a.sym && b.sym) {
				return off{c: a.c + b.c, sym: a.sym || b.sym, ok: true}
			}
		}
	case *ast.CallExpr:
		if id, ok := x.Fun.(*ast.Ident); ok {
			if id.Name == "len" {
				return off{sym: true, ok: true}
			}
			if id.Name == "int" && len(x.Args) == 1 {
				return lc.evalOff(x.Args[0])
			}
		}
	case *ast.Ident:
		// a non-constant integer variable: symbolic length
		if t := lc.info.TypeOf(x); t != nil {
			if b, ok := t.Underlying().(*types.Basic); ok && b.Info()&types.IsInteger != 0 {
				return off{sym: true, ok: true}
			}
		}
	}
	return off{}
}

// isBufB reports whether e is <ident>.B where ident has type *lib.Buffer; returns the ident name.
func (lc *layoutCtx) isBufB(e ast.Expr) (string, bool) {
	se, ok := ast.Unparen(e).(*ast.SelectorExpr)
	if !ok || se.Sel.Name != "B" {
		return "", false
	}
	t := lc.info.TypeOf(se.X)
	if t == nil {
		return "", false
	}
	if p, ok := t.(*types.Pointer); ok {
		t = p.Elem()
	}
	n, ok := t.(*types.Named)
	if !ok || n.Obj().Name() != "Buffer" || n.Obj().Pkg() == nil || n.Obj().Pkg().Path() != load.Module+"/lib" {
		return "", false
	}
	if id, ok := se.X.(*ast.Ident); ok {
		return id.Name, true
	}
	return "", true
}

// bufRange: buf.B[i] or buf.B[a:b]
func (lc *layoutCtx) bufRange(e ast.Expr) (lo, hi off, ok bool) {
	switch x := ast.Unparen(e).(type) {
	case *ast.IndexExpr:
		if _, isB := lc.isBufB(x.X); isB {
			lo = lc.evalOff(x.Index)
			if lo.ok {
				return lo, off{c: lo.c + 1, sym: lo.sym, ok: true}, true
			}
		}
	case *ast.SliceExpr:
		if _, isB := lc.isBufB(x.X); isB {
			lo = off{c: 0, ok: true}
			if x.Low != nil {
				lo = lc.evalOff(x.Low)
			}
			if x.High != nil {
				hi = lc.evalOff(x.High)
			}
			if lo.ok {
				return lo, hi, true
			}
		}
	}
	return
}

func namedOf(t types.Type) string {
	if t == nil {
		return ""
	}
	if p, ok := t.(*types.Pointer); ok {
		t = p.Elem()
	}
	if n, ok := t.(*types.Named); ok && n.Obj().Pkg() != nil {
		return strings.TrimPrefix(n.Obj().Pkg().Path(), load.Module+"/") + "." + n.Obj().Name()
	}
	return ""
}

// idKind classifies an expression that denotes an identifier word of a PID/Alias/Ref.
func (lc *layoutCtx) idKind(e ast.Expr) (kind string, base ast.Expr) {
	e = ast.Unparen(e)
	switch x := e.(type) {
	case *ast.SelectorExpr:
		if x.Sel.Name == "ID" && namedOf(lc.info.TypeOf(x.X)) == "gen.PID" {
			return "pid-id", x.X
		}
	case *ast.IndexExpr:
		if se, ok := ast.Unparen(x.X).(*ast.SelectorExpr); ok && se.Sel.Name == "ID" {
			k := lc.evalOff(x.Index)
			switch namedOf(lc.info.TypeOf(se.X)) {
			case "gen.Alias":
				return fmt.Sprintf("alias-id[%d]", k.c), se.X
			case "gen.Ref":
				return fmt.Sprintf("ref-id[%d]", k.c), se.X
			}
		}
	}
	return "", nil
}

func exprStr(fset *token.FileSet, e ast.Expr) string {
	return types.ExprString(e)
}

// protoConstName: e is an identifier resolving to a package-level constant named proto*.
func (lc *layoutCtx) protoConstName(e ast.Expr) string {
	id, ok := ast.Unparen(e).(*ast.Ident)
	if !ok {
		return ""
	}
	if c, ok := lc.info.Uses[id].(*types.Const); ok && strings.HasPrefix(c.Name(), "proto") {
		return c.Name()
	}
	return ""
}

// ---------------------------------------------------------------------------------
// writers

type branchCtx struct {
	cond string // text of the enclosing if condition ("" = none)
	then bool
}

type wstmt struct {
	f   lfield
	ctx []branchCtx
}

// extractWriters returns the layouts written by every function of the package that stores a
// proto* constant into buf.B[7].
func (lc *layoutCtx) extractWriters() []frameLayout {
	var out []frameLayout
	for _, file := range lc.pk.Syntax {
		for _, d := range file.Decls {
			fd, ok := d.(*ast.FuncDecl)
			if !ok || fd.Body == nil {
				continue
			}
			out = append(out, lc.writerOf(fd)...)
		}
	}
	sort.Slice(out, func(i, j int) bool { return out[i].konst < out[j].konst })
	return out
}

func (lc *layoutCtx) writerOf(fd *ast.FuncDecl) []frameLayout {
	type kassign struct {
		konst string
		ctx   []branchCtx
		buf   string
		pos   token.Pos
	}
	var ks []kassign
	var ws []wstmt
	type allocS struct {
		o   off
		ctx []branchCtx
		buf string
	}
	var allocs []allocS
	peerGuard := map[string]bool{} // param name -> guarded against c.peer_creation

	var walk func(n ast.Node, ctx []branchCtx)
	walkStmts := func(list []ast.Stmt, ctx []branchCtx) {
		for _, s := range list {
			walk(s, ctx)
		}
	}
	walk = func(n ast.Node, ctx []branchCtx) {
		switch s := n.(type) {
		case *ast.BlockStmt:
			walkStmts(s.List, ctx)
		case *ast.IfStmt:
			cond := types.ExprString(s.Cond)
			// incarnation guard: X.Creation != c.peer_creation { return ... }
			if be, ok := s.Cond.(*ast.BinaryExpr); ok && be.Op == token.NEQ {
				for _, pr := range [][2]ast.Expr{{be.X, be.Y}, {be.Y, be.X}} {
					if se, ok := pr[0].(*ast.SelectorExpr); ok && se.Sel.Name == "Creation" {
						if id, ok := se.X.(*ast.Ident); ok && strings.HasSuffix(types.ExprString(pr[1]), "peer_creation") {
							peerGuard[id.Name] = true
						}
					}
				}
			}
			if s.Init != nil {
				walk(s.Init, ctx)
			}
			walk(s.Body, append(append([]branchCtx{}, ctx...), branchCtx{cond, true}))
			if s.Else != nil {
				walk(s.Else, append(append([]branchCtx{}, ctx...), branchCtx{cond, false}))
			}
		case *ast.ForStmt:
			walk(s.Body, ctx)
		case *ast.RangeStmt:
			walk(s.Body, ctx)
		case *ast.SwitchStmt:
			walk(s.Body, ctx)
		case *ast.CaseClause:
			walkStmts(s.Body, append(append([]branchCtx{}, ctx...), branchCtx{"case", true}))
		case *ast.AssignStmt:
			if len(s.Lhs) == 1 && len(s.Rhs) == 1 {
				if ie, ok := s.Lhs[0].(*ast.IndexExpr); ok {
					if bn, isB := lc.isBufB(ie.X); isB {
						idx := lc.evalOff(ie.Index)
						if idx.ok && !idx.sym && idx.c == 7 {
							if k := lc.protoConstName(s.Rhs[0]); k != "" {
								ks = append(ks, kassign{k, ctx, bn, s.Pos()})
								return
							}
						}
						if idx.ok {
							f := lfield{lo: idx, hi: off{c: idx.c + 1, sym: idx.sym, ok: true}, kind: "byte", expr: types.ExprString(s.Rhs[0]), pos: s.Pos(), varName: bn}
							ws = append(ws, wstmt{f, ctx})
						}
					}
				}
			}
		case *ast.ExprStmt:
			ce, ok := s.X.(*ast.CallExpr)
			if !ok {
				return
			}
			fun := types.ExprString(ce.Fun)
			switch {
			case strings.HasPrefix(fun, "binary.BigEndian.PutUint") && len(ce.Args) == 2:
				lo, hi, ok := lc.bufRange(ce.Args[0])
				if !ok {
					return
				}
				f := lfield{lo: lo, hi: hi, kind: "u" + strings.TrimPrefix(fun, "binary.BigEndian.PutUint"), expr: types.ExprString(ce.Args[1]), pos: s.Pos()}
				if se, ok := ce.Args[0].(*ast.SliceExpr); ok {
					f.varName, _ = lc.isBufB(se.X)
				}
				if k, base := lc.idKind(ce.Args[1]); k != "" {
					f.kind = k
					f.varName = types.ExprString(base)
				}
				ws = append(ws, wstmt{f, ctx})
			case fun == "copy" && len(ce.Args) == 2:
				lo, hi, ok := lc.bufRange(ce.Args[0])
				if ok {
					ws = append(ws, wstmt{lfield{lo: lo, hi: hi, kind: "bytes", expr: types.ExprString(ce.Args[1]), pos: s.Pos()}, ctx})
				}
			case strings.HasSuffix(fun, ".Allocate") && len(ce.Args) == 1:
				if se, ok := ce.Fun.(*ast.SelectorExpr); ok {
					if id, ok := se.X.(*ast.Ident); ok && namedOf(lc.info.TypeOf(id)) == "lib.Buffer" {
						allocs = append(allocs, allocS{lc.evalOff(ce.Args[0]), ctx, id.Name})
					}
				}
			}
		case *ast.ReturnStmt, *ast.DeclStmt, *ast.GoStmt, *ast.DeferStmt:
		}
	}
	walk(fd.Body, nil)
	if len(ks) == 0 {
		return nil
	}
	fn := fd.Name.Name
	// attribute: a statement belongs to constant K unless it sits in a branch (cond, polarity)
	// whose condition text equals a branch of another constant's assignment with the other polarity,
	// or equals the branch of another constant with the same polarity but a different condition chain.
	belongs := func(ctx []branchCtx, k kassign, all []kassign) (bool, bool) {
		cond := false
		for _, b := range ctx {
			matched := false
			for _, kb := range k.ctx {
				if kb.cond == b.cond {
					matched = true
					if kb.then != b.then {
						return false, false
					}
				}
			}
			if !matched {
				// is it the branch of another constant?
				for _, o := range all {
					if o.konst == k.konst {
						continue
					}
					for _, ob := range o.ctx {
						if ob.cond == b.cond && ob.then == b.then && len(all) > 1 {
							// branch selects the other constant only if k has no same cond
							return false, false
						}
					}
				}
				cond = true
			}
		}
		return true, cond
	}
	var out []frameLayout
	for _, k := range ks {
		fl := frameLayout{konst: k.konst, fn: fn, pos: k.pos}
		for _, w := range ws {
			if w.f.varName != "" && w.f.kind == "byte" && w.f.varName != k.buf {
				continue
			}
			ok, cond := belongs(w.ctx, k, ks)
			if !ok {
				continue
			}
			f := w.f
			f.cond = cond
			if f.kind == "pid-id" || strings.HasPrefix(f.kind, "alias-id") {
				if peerGuard[f.varName] {
					f.owner = "peer"
				} else {
					f.owner = "self"
				}
			}
			fl.fields = append(fl.fields, f)
		}
		for _, al := range allocs {
			if al.buf != k.buf {
				continue
			}
			if ok, _ := belongs(al.ctx, k, ks); ok {
				fl.alloc = al.o
			}
		}
		out = append(out, fl)
	}
	return out
}

// ---------------------------------------------------------------------------------
// reader

// extractReaders finds the switch over buf.B[7] with proto* case labels and returns one layout
// per constant.
func (lc *layoutCtx) extractReaders() ([]frameLayout, string) {
	var sw *ast.SwitchStmt
	var fnName string
	for _, file := range lc.pk.Syntax {
		for _, d := range file.Decls {
			fd, ok := d.(*ast.FuncDecl)
			if !ok || fd.Body == nil {
				continue
			}
			ast.Inspect(fd.Body, func(n ast.Node) bool {
				s, ok := n.(*ast.SwitchStmt)
				if !ok || s.Tag == nil {
					return true
				}
				lo, _, isR := lc.bufRange(s.Tag)
				if !isR || lo.c != 7 {
					return true
				}
				nproto := 0
				for _, c := range s.Body.List {
					for _, e := range c.(*ast.CaseClause).List {
						if lc.protoConstName(e) != "" {
							nproto++
						}
					}
				}
				if nproto >= 5 && (sw == nil || nproto > len(sw.Body.List)) {
					sw = s
					fnName = fd.Name.Name
				}
				return true
			})
		}
	}
	if sw == nil {
		return nil, ""
	}
	var out []frameLayout
	for _, c := range sw.Body.List {
		cc := c.(*ast.CaseClause)
		var ks []string
		for _, e := range cc.List {
			if k := lc.protoConstName(e); k != "" {
				ks = append(ks, k)
			}
		}
		for _, k := range ks {
			out = append(out, lc.readerArm(cc, k, ks, fnName))
		}
	}
	sort.Slice(out, func(i, j int) bool { return out[i].konst < out[j].konst })
	return out, fnName
}

func (lc *layoutCtx) readerArm(cc *ast.CaseClause, k string, all []string, fn string) frameLayout {
	fl := frameLayout{konst: k, fn: fn, pos: cc.Pos()}
	// variable -> literal ownership: X := gen.PID{Node: c.peer, ...}
	ownerOf := map[string]string{} // var name -> owner
	typeOf := map[string]string{}
	idCarrier := map[string]string{} // scalar var (idFrom) -> composite var that uses it as ID
	ast.Inspect(cc, func(n ast.Node) bool {
		as, ok := n.(*ast.AssignStmt)
		if !ok || len(as.Lhs) != 1 || len(as.Rhs) != 1 {
			return true
		}
		cl, ok := as.Rhs[0].(*ast.CompositeLit)
		if !ok {
			return true
		}
		id, ok := as.Lhs[0].(*ast.Ident)
		if !ok {
			return true
		}
		tn := namedOf(lc.info.TypeOf(cl))
		if tn != "gen.PID" && tn != "gen.Alias" && tn != "gen.Ref" && tn != "gen.ProcessID" && tn != "gen.Event" {
			return true
		}
		typeOf[id.Name] = tn
		for _, el := range cl.Elts {
			kv, ok := el.(*ast.KeyValueExpr)
			if !ok {
				continue
			}
			key := types.ExprString(kv.Key)
			val := types.ExprString(kv.Value)
			switch key {
			case "Node", "Creation":
				o := ""
				if strings.HasSuffix(val, ".peer") || strings.HasSuffix(val, "peer_creation") {
					o = "peer"
				} else if strings.Contains(val, "core.Name()") || strings.Contains(val, "core.Creation()") {
					o = "self"
				}
				if o != "" {
					if prev, ok := ownerOf[id.Name]; ok && prev != o {
						ownerOf[id.Name] = "mixed"
					} else if !ok {
						ownerOf[id.Name] = o
					}
				}
			case "ID":
				if vid, ok := kv.Value.(*ast.Ident); ok {
					idCarrier[vid.Name] = id.Name
				}
			}
		}
		return true
	})
	// scalar var assigned into X.ID[k] later (opts.Ref.ID[0] = importantRef)
	scalarInto := map[string]string{} // scalar var -> "ref-id[0]"
	ast.Inspect(cc, func(n ast.Node) bool {
		as, ok := n.(*ast.AssignStmt)
		if !ok || len(as.Lhs) != 1 || len(as.Rhs) != 1 {
			return true
		}
		if vid, ok := as.Rhs[0].(*ast.Ident); ok {
			if kd, _ := lc.idKind(as.Lhs[0]); kd != "" {
				scalarInto[vid.Name] = kd
			}
		}
		return true
	})

	var walk func(n ast.Node, ctxOK bool, cond bool)
	record := func(e ast.Expr, kind string, parentAssign *ast.AssignStmt, cond bool) {
		lo, hi, ok := lc.bufRange(e)
		if !ok {
			return
		}
		f := lfield{lo: lo, hi: hi, kind: kind, pos: e.Pos(), cond: cond, expr: types.ExprString(e)}
		if parentAssign != nil && len(parentAssign.Lhs) >= 1 {
			lhs := parentAssign.Lhs[0]
			if kd, base := lc.idKind(lhs); kd != "" {
				f.kind = kd
				bn := types.ExprString(base)
				f.varName = bn
				f.owner = ownerOf[bn]
			} else if id, ok := lhs.(*ast.Ident); ok {
				f.varName = id.Name
				if comp, ok := idCarrier[id.Name]; ok && typeOf[comp] == "gen.PID" {
					f.kind = "pid-id"
					f.owner = ownerOf[comp]
					f.varName = comp
				} else if kd, ok := scalarInto[id.Name]; ok {
					f.kind = kd
				}
			}
		}
		fl.fields = append(fl.fields, f)
	}
	var curAssign *ast.AssignStmt
	walk = func(n ast.Node, ctxOK bool, cond bool) {
		if n == nil {
			return
		}
		switch s := n.(type) {
		case *ast.IfStmt:
			// if buf.B[7] == K {A} else {B}
			if be, ok := s.Cond.(*ast.BinaryExpr); ok && (be.Op == token.EQL || be.Op == token.NEQ) {
				lo, _, isR := lc.bufRange(be.X)
				if isR && lo.c == 7 {
					if kk := lc.protoConstName(be.Y); kk != "" {
						thenIsK := (kk == k) == (be.Op == token.EQL)
						walk(s.Body, thenIsK, cond)
						if s.Else != nil {
							walk(s.Else, !thenIsK, cond)
						}
						return
					}
				}
				// guard: buf.Len() < n
				if be.Op == token.LSS {
					if ce, ok := be.X.(*ast.CallExpr); ok && strings.HasSuffix(types.ExprString(ce.Fun), ".Len") {
						g := lc.evalOff(be.Y)
						if g.ok && ctxOK {
							fl.guards = append(fl.guards, g.c)
						}
					}
				}
			}
			if be, ok := s.Cond.(*ast.BinaryExpr); ok && be.Op == token.LSS {
				if ce, ok := be.X.(*ast.CallExpr); ok && strings.HasSuffix(types.ExprString(ce.Fun), ".Len") {
					g := lc.evalOff(be.Y)
					if g.ok && ctxOK {
						fl.guards = append(fl.guards, g.c)
					}
				}
			}
			if s.Init != nil {
				walk(s.Init, ctxOK, cond)
			}
			walk(s.Cond, ctxOK, cond)
			walk(s.Body, ctxOK, true)
			if s.Else != nil {
				walk(s.Else, ctxOK, true)
			}
			return
		case *ast.AssignStmt:
			prev := curAssign
			curAssign = s
			for _, r := range s.Rhs {
				walk(r, ctxOK, cond)
			}
			curAssign = prev
			return
		case *ast.CompositeLit:
			// gen.PID{ID: Uint64(buf.B[a:b]), ...} assigned to V, or [3]uint64{Uint64(..), ..} assigned to a carrier
			tn := namedOf(lc.info.TypeOf(s))
			lhsName := ""
			if curAssign != nil && len(curAssign.Lhs) == 1 {
				if id, ok := curAssign.Lhs[0].(*ast.Ident); ok {
					lhsName = id.Name
				}
			}
			isRead := func(e ast.Expr) (ast.Expr, string, bool) {
				for {
					ce, ok := ast.Unparen(e).(*ast.CallExpr)
					if !ok {
						return nil, "", false
					}
					fun := types.ExprString(ce.Fun)
					if strings.HasPrefix(fun, "binary.BigEndian.Uint") && len(ce.Args) == 1 {
						return ce.Args[0], "u" + strings.TrimPrefix(fun, "binary.BigEndian.Uint"), true
					}
					if len(ce.Args) == 1 { // conversion
						e = ce.Args[0]
						continue
					}
					return nil, "", false
				}
			}
			handled := map[ast.Expr]bool{}
			if tn == "gen.PID" && lhsName != "" {
				for _, el := range s.Elts {
					if kv, ok := el.(*ast.KeyValueExpr); ok && types.ExprString(kv.Key) == "ID" {
						if arg, _, ok := isRead(kv.Value); ok && ctxOK {
							lo, hi, okr := lc.bufRange(arg)
							if okr {
								fl.fields = append(fl.fields, lfield{lo: lo, hi: hi, kind: "pid-id", owner: ownerOf[lhsName], varName: lhsName, pos: arg.Pos(), cond: cond, expr: types.ExprString(arg)})
								handled[kv.Value] = true
							}
						}
					}
				}
			}
			if at, ok := lc.info.TypeOf(s).Underlying().(*types.Array); ok && at.Len() == 3 && lhsName != "" {
				if comp, ok := idCarrier[lhsName]; ok {
					pref := ""
					switch typeOf[comp] {
					case "gen.Alias":
						pref = "alias-id"
					case "gen.Ref":
						pref = "ref-id"
					}
					if pref != "" {
						for k, el := range s.Elts {
							if arg, _, ok := isRead(el); ok && ctxOK {
								lo, hi, okr := lc.bufRange(arg)
								if okr {
									fl.fields = append(fl.fields, lfield{lo: lo, hi: hi, kind: fmt.Sprintf("%s[%d]", pref, k), owner: ownerOf[comp], varName: comp, pos: arg.Pos(), cond: cond, expr: types.ExprString(arg)})
									handled[el] = true
								}
							}
						}
					}
				}
			}
			for _, el := range s.Elts {
				v := el
				if kv, ok := el.(*ast.KeyValueExpr); ok {
					v = kv.Value
				}
				if handled[v] {
					continue
				}
				prev := curAssign
				curAssign = nil
				walk(v, ctxOK, cond)
				curAssign = prev
			}
			return
		case *ast.CallExpr:
			fun := types.ExprString(s.Fun)
			if strings.HasPrefix(fun, "binary.BigEndian.Uint") && len(s.Args) == 1 {
				if ctxOK {
					record(s.Args[0], "u"+strings.TrimPrefix(fun, "binary.BigEndian.Uint"), curAssign, cond)
				}
				return
			}
			if strings.HasSuffix(fun, "edf.Decode") && len(s.Args) >= 1 {
				if lo, hi, ok := lc.bufRange(s.Args[0]); ok && !hi.ok && ctxOK {
					fl.payload = lo
					return
				}
			}
		case *ast.IndexExpr:
			if _, isB := lc.isBufB(s.X); isB {
				if ctxOK {
					record(s, "byte", curAssign, cond)
				}
				return
			}
		case *ast.SliceExpr:
			if _, isB := lc.isBufB(s.X); isB {
				if ctxOK {
					lo, hi, ok := lc.bufRange(s)
					if ok && !hi.ok {
						// data = buf.B[n:] : payload
						fl.payload = lo
					} else {
						record(s, "bytes", curAssign, cond)
					}
				}
				return
			}
		}
		// generic descent
		ast.Inspect(n, func(m ast.Node) bool {
			if m == n || m == nil {
				return true
			}
			walk(m, ctxOK, cond)
			return false
		})
	}
	for _, s := range cc.Body {
		walk(s, true, false)
	}
	return fl
}
