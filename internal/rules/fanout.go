package rules

import (
	"go/token"
	"strings"

	"golang.org/x/tools/go/ssa"
)

// memberFanout recognises "do X to every element of the map field <field>" in its two shapes and
// returns the instruction that completes it (nil if `in` does not start such a fan-out):
//
//	(A) field.Range(func(k, _) bool { X(k); return true })   — the callback never stops the walk
//	(B) for _, k := range collect() { X(k) }                  — collect() gathers every key under
//	    Range (shape A with append), the loop is left only by exhaustion and applies X to the element
//
// actions are the accepted names of X. why explains a near miss (a Range that can stop early, …).
func memberFanout(in ssa.Instruction, field string, actions ...string) (done ssa.Instruction, why string) {
	cc := callCommon(in)
	if cc == nil {
		return nil, ""
	}
	// shape A
	if isRangeOver(cc, field) {
		g, ok := cc.Args[1].(*ssa.MakeClosure)
		if !ok {
			return nil, ""
		}
		fn := g.Fn.(*ssa.Function)
		acts, whyA := closureAppliesToKey(fn, actions)
		if !acts {
			return nil, whyA
		}
		if !closureAlwaysContinues(fn) {
			return nil, "the Range callback can return false: the walk stops before every member was reached"
		}
		return in, ""
	}
	// shape B: call to a collector, result ranged over
	c, ok := in.(*ssa.Call)
	if !ok {
		return nil, ""
	}
	h := staticCallee(cc)
	if h == nil || len(h.Blocks) == 0 || !isKeyCollector(h, field) {
		return nil, ""
	}
	// the element loop
	var act ssa.Instruction
	if refs := c.Referrers(); refs != nil {
		for _, rf := range *refs {
			ia, ok := rf.(*ssa.IndexAddr)
			if !ok || ia.X != ssa.Value(c) {
				continue
			}
			for _, r2 := range *ia.Referrers() {
				ld, ok := r2.(*ssa.UnOp)
				if !ok || ld.Op != token.MUL {
					continue
				}
				// the element reaches an action call (directly or through a local copy)
				eachInstr(c.Parent(), func(i2 ssa.Instruction) {
					for _, a := range actedOn(i2, actions) {
						if a == ssa.Value(ld) || resolveLocalCopy(a) == ssa.Value(ld) {
							act = i2
						}
					}
				})
			}
		}
	}
	if act == nil {
		return nil, "the collected members are not each given to " + strings.Join(actions, "/")
	}
	if ok, w := loopExitsOnlyAtHeader(act); !ok {
		return nil, "the loop over the collected members " + w
	}
	return act, ""
}

// actedOn: the arguments of `in` that one of the actions is applied to — the call's own arguments
// when it is an action, or, when it calls a module function that hands a parameter of its own to an
// action on every path (a one-member helper such as "stop this member"), the arguments bound to
// those parameters.
func actedOn(in ssa.Instruction, actions []string) []ssa.Value {
	cc := callCommon(in)
	if cc == nil {
		return nil
	}
	if callsNamed(in, actions...) {
		return cc.Args
	}
	g := staticCallee(cc)
	if g == nil || len(g.Blocks) == 0 || !fnInModule(g) || len(g.Params) != len(cc.Args) {
		return nil
	}
	var out []ssa.Value
	for k, prm := range g.Params {
		var act ssa.Instruction
		eachInstr(g, func(x ssa.Instruction) {
			c2 := callCommon(x)
			if c2 == nil || !callsNamed(x, actions...) {
				return
			}
			for _, a := range c2.Args {
				if a == ssa.Value(prm) || isParamValue(a, prm) {
					act = x
				}
			}
		})
		if act == nil {
			continue
		}
		// on every path: no return reachable from the entry without passing the action
		if reaches([]Point{{g.Blocks[0], 0}}, func(x ssa.Instruction) bool { return x == act }, isReturn) == nil {
			out = append(out, cc.Args[k])
		}
	}
	return out
}

func isRangeOver(cc *ssa.CallCommon, field string) bool {
	sf := staticCallee(cc)
	if sf == nil || sf.Signature.Recv() == nil || len(cc.Args) < 2 {
		return false
	}
	n := sf.Name()
	if i := strings.IndexByte(n, '['); i > 0 {
		n = n[:i]
	}
	if n != "Range" {
		return false
	}
	_, path, ok := fieldPath(cc.Args[0])
	return ok && len(path) > 0 && path[len(path)-1] == field
}

// closureAppliesToKey: the callback calls one of the actions with its first parameter (the key).
func closureAppliesToKey(fn *ssa.Function, actions []string) (bool, string) {
	if len(fn.Params) == 0 {
		return false, ""
	}
	key := fn.Params[0]
	found, any := false, false
	eachInstr(fn, func(in ssa.Instruction) {
		args := actedOn(in, actions)
		if args == nil {
			return
		}
		any = true
		for _, a := range args {
			if a == ssa.Value(key) || isParamValue(a, key) {
				found = true
			}
		}
	})
	if any && !found {
		return false, "the action in the Range callback is not applied to the walked key"
	}
	return found, ""
}

// closureAlwaysContinues: every return of the callback is the constant true.
func closureAlwaysContinues(fn *ssa.Function) bool {
	ok := true
	eachInstr(fn, func(in ssa.Instruction) {
		ret, isRet := in.(*ssa.Return)
		if !isRet || len(ret.Results) != 1 {
			return
		}
		if b, okb := constBool(ret.Results[0]); !okb || !b {
			ok = false
		}
	})
	return ok
}

// isKeyCollector: h walks the whole map field with Range, appends every key to a slice and returns it.
func isKeyCollector(h *ssa.Function, field string) bool {
	ok := false
	eachInstr(h, func(in ssa.Instruction) {
		cc := callCommon(in)
		if cc == nil || !isRangeOver(cc, field) {
			return
		}
		g, isC := cc.Args[1].(*ssa.MakeClosure)
		if !isC {
			return
		}
		fn := g.Fn.(*ssa.Function)
		if len(fn.Params) == 0 || !closureAlwaysContinues(fn) {
			return
		}
		key := fn.Params[0]
		appends := false
		eachInstr(fn, func(i2 ssa.Instruction) {
			c2 := callCommon(i2)
			if c2 == nil {
				return
			}
			if b, isB := c2.Value.(*ssa.Builtin); isB && b.Name() == "append" {
				// append(slice, key): the variadic part is a slice of a one-element array holding the key
				if sl, isSl := c2.Args[1].(*ssa.Slice); isSl {
					if al, isAl := sl.X.(*ssa.Alloc); isAl {
						for _, rf := range *al.Referrers() {
							if ia, isIA := rf.(*ssa.IndexAddr); isIA {
								for _, r2 := range *ia.Referrers() {
									if st, isSt := r2.(*ssa.Store); isSt && (st.Val == ssa.Value(key) || isParamValue(st.Val, key)) {
										appends = true
									}
								}
							}
						}
					}
				}
			}
		})
		if appends {
			ok = true
		}
	})
	return ok
}
