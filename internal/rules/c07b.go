package rules

import (
	"fmt"
	"strings"

	"golang.org/x/tools/go/ssa"

	"verif/internal/core"
	"verif/internal/load"
)

// c07OneHandlerPerRequest: Q9 — a request taken from the mailbox is presented to ONE request
// callback. (nil, nil) from a callback means "no reply now": the callback keeps From/Ref and
// answers later, so the result cannot tell whether the request has been handled. In every
// behaviour loop and in the meta handler no HandleCall* callback is reachable from another one
// without taking the next message from the mailbox (a queue Pop) in between.
func c07OneHandlerPerRequest(p *load.Program, r *core.Report) {
	rule := "C07.Q9 request-presented-to-one-handler"
	r.Floor(rule, 8)
	isReqHandler := func(in ssa.Instruction) bool {
		cc := callCommon(in)
		return cc != nil && cc.IsInvoke() && strings.HasPrefix(cc.Method.Name(), "HandleCall")
	}
	isPop := func(in ssa.Instruction) bool {
		cc := callCommon(in)
		if cc == nil {
			return false
		}
		if cc.IsInvoke() {
			return cc.Method.Name() == "Pop"
		}
		sf := staticCallee(cc)
		return sf != nil && sf.Name() == "Pop"
	}
	for _, f := range funcsOfPkgs(p, "act", "node") {
		var sites []ssa.Instruction
		eachInstr(f, func(in ssa.Instruction) {
			if isReqHandler(in) {
				sites = append(sites, in)
			}
		})
		if len(sites) == 0 {
			continue
		}
		pops := 0
		eachInstr(f, func(in ssa.Instruction) {
			if isPop(in) {
				pops++
			}
		})
		if pops == 0 {
			// not a mailbox loop (a wrapper that forwards one callback to another)
			continue
		}
		fn := fname(f)
		for i, s := range sites {
			key := fmt.Sprintf("C07.Q9|%s|%s#%d", fn, callCommon(s).Method.Name(), i+1)
			inst := "no other request callback is reachable from this one before the next message is taken from the mailbox"
			h := reaches([]Point{{s.Block(), indexIn(s) + 1}}, isPop, isReqHandler)
			if h == nil {
				r.OK(rule, key, fn, p.Pos(s.Pos()), inst, fmt.Sprintf("every path from the callback reaches a Pop (or leaves the loop) first; %d request callback site(s) in the function", len(sites)))
			} else {
				r.Bad(rule, key, fn, p.Pos(s.Pos()), inst, fmt.Sprintf("%s at %s is reachable without taking a new message: a request answered asynchronously (the callback returned nil, nil and replies later) is presented a second time, and whatever the second callback returns is sent as the reply too", callCommon(h).Method.Name(), p.Pos(h.Pos())))
			}
		}
	}
}
