// Witness w42 (property C17/C10), written by the C17 seeding agent: a stop request that arrives while start() is still starting members.

package main

import (
	"fmt"
	"time"

	"ergo.services/ergo/act"
	"ergo.services/ergo/gen"
	"ergo.services/ergo/node"
)

type member struct{ act.Actor }

func (m *member) Init(args ...any) error {
	if len(args) > 0 {
		time.Sleep(args[0].(time.Duration))
	}
	return nil
}
func factoryMember() gen.ProcessBehavior { return &member{} }

type demoApp struct{ terminated chan error }

func (a *demoApp) Load(n gen.Node, args ...any) (gen.ApplicationSpec, error) {
	return gen.ApplicationSpec{
		Name: "app",
		Mode: gen.ApplicationModeTemporary,
		Group: []gen.ApplicationMemberSpec{
			{Name: "m1", Factory: factoryMember},
			{Name: "m2", Factory: factoryMember, Args: []any{400 * time.Millisecond}},
			{Name: "m3", Factory: factoryMember},
		},
	}, nil
}
func (a *demoApp) Start(mode gen.ApplicationMode) { fmt.Println("Start callback") }
func (a *demoApp) Terminate(reason error)         { fmt.Println("Terminate callback", reason) }

func main() {
	o := gen.NodeOptions{}
	o.Network.Mode = gen.NetworkModeDisabled
	o.Log.DefaultLogger.Disable = true
	n, err := node.Start("pre2@localhost", o, gen.Version{})
	if err != nil {
		panic(err)
	}
	app := &demoApp{}
	name, _ := n.ApplicationLoad(app)
	go func() {
		fmt.Println("start returned:", n.ApplicationStart(name, gen.ApplicationOptions{}))
	}()
	time.Sleep(100 * time.Millisecond)
	fmt.Println("stop returned:", n.ApplicationStopWithTimeout(name, time.Second))
	time.Sleep(500 * time.Millisecond)
	info, _ := n.ApplicationInfo(name)
	fmt.Println("state", info.State, "group", info.Group)
	fmt.Println("stop again:", n.ApplicationStopWithTimeout(name, time.Second))
	info, _ = n.ApplicationInfo(name)
	fmt.Println("state", info.State, "group", info.Group)
}
