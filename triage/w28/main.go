package main

// w28: the Terminate callback of a meta process runs exactly once and never next to a handler
//  (a) Start() returns while HandleMessage is running  -> Terminate after the handler, once
//  (b) HandleMessage returns an error and the Terminate callback panics -> still one Terminate call
//  (c) Start() returns and a handler returns an error at the same time (200 rounds) -> one Terminate call each

import (
	"errors"
	"fmt"
	"os"
	"sync/atomic"
	"time"

	"ergo.services/ergo"
	"ergo.services/ergo/act"
	"ergo.services/ergo/gen"
)

type mb struct {
	gen.MetaProcess
	stop      chan struct{}
	entered   chan struct{}
	release   chan struct{}
	in        int32
	term      int32
	overlap   int32
	panicTerm bool
	herr      error
}

func (m *mb) Init(p gen.MetaProcess) error { m.MetaProcess = p; return nil }
func (m *mb) Start() error                 { <-m.stop; return nil }
func (m *mb) HandleMessage(from gen.PID, message any) error {
	atomic.StoreInt32(&m.in, 1)
	if m.entered != nil {
		m.entered <- struct{}{}
	}
	if m.release != nil {
		<-m.release
	}
	atomic.StoreInt32(&m.in, 0)
	return m.herr
}
func (m *mb) HandleCall(from gen.PID, ref gen.Ref, request any) (any, error) { return nil, nil }
func (m *mb) Terminate(reason error) {
	if atomic.LoadInt32(&m.in) == 1 {
		atomic.AddInt32(&m.overlap, 1)
	}
	if atomic.AddInt32(&m.term, 1) == 1 && m.panicTerm {
		panic("terminate panics")
	}
}
func (m *mb) HandleInspect(from gen.PID, item ...string) map[string]string { return nil }

type owner struct {
	act.Actor
}

type spawnReq struct {
	m  *mb
	ch chan gen.Alias
}

func (o *owner) HandleMessage(from gen.PID, message any) error {
	r := message.(spawnReq)
	a, err := o.SpawnMeta(r.m, gen.MetaOptions{})
	if err != nil {
		panic(err)
	}
	r.ch <- a
	return nil
}

func main() {
	opt := gen.NodeOptions{}
	opt.Network.Mode = gen.NetworkModeDisabled
	opt.Log.Level = gen.LogLevelDisabled
	n, _ := ergo.StartNode("w28@localhost", opt)
	op, _ := n.Spawn(func() gen.ProcessBehavior { return &owner{} }, gen.ProcessOptions{})
	spawn := func(m *mb) gen.Alias {
		ch := make(chan gen.Alias, 1)
		n.Send(op, spawnReq{m, ch})
		a := <-ch
		time.Sleep(20 * time.Millisecond)
		return a
	}
	bad := 0

	m := &mb{stop: make(chan struct{}), entered: make(chan struct{}, 1), release: make(chan struct{})}
	a := spawn(m)
	n.Send(a, "hello")
	<-m.entered
	close(m.stop)
	time.Sleep(200 * time.Millisecond)
	close(m.release)
	time.Sleep(200 * time.Millisecond)
	fmt.Printf("(a) terminate calls=%d overlapping=%d\n", m.term, m.overlap)
	if m.term != 1 || m.overlap != 0 {
		bad++
	}

	m = &mb{stop: make(chan struct{}), panicTerm: true, herr: errors.New("boom")}
	a = spawn(m)
	n.Send(a, "hello")
	time.Sleep(200 * time.Millisecond)
	close(m.stop)
	time.Sleep(200 * time.Millisecond)
	fmt.Printf("(b) terminate calls=%d\n", m.term)
	if m.term != 1 {
		bad++
	}

	wrong := 0
	for i := 0; i < 200; i++ {
		m = &mb{stop: make(chan struct{}), herr: errors.New("boom")}
		a = spawn(m)
		go n.Send(a, "hello")
		go close(m.stop)
		time.Sleep(30 * time.Millisecond)
		if atomic.LoadInt32(&m.term) != 1 || atomic.LoadInt32(&m.overlap) != 0 {
			wrong++
		}
	}
	fmt.Printf("(c) rounds with terminate calls != 1 or overlap: %d of 200\n", wrong)
	if wrong > 0 {
		bad++
	}
	if bad > 0 {
		fmt.Println("WITNESS: defect present")
		os.Exit(1)
	}
	fmt.Println("quiet")
}
