package main

import (
	"fmt"
	"os"
	"time"

	"ergo.services/ergo"
	"ergo.services/ergo/act"
	"ergo.services/ergo/gen"
)

type pong struct{ act.Actor }

func factoryPong() gen.ProcessBehavior { return &pong{} }

type obs struct {
	act.Actor
	ch chan any
}

func (o *obs) Init(args ...any) error { o.ch = args[0].(chan any); o.SetTrapExit(true); return nil }
func (o *obs) HandleMessage(from gen.PID, m any) error {
	switch x := m.(type) {
	case gen.PID:
		err := o.LinkPID(x)
		o.ch <- fmt.Sprintf("link: %v", err)
		err = o.MonitorPID(x)
		o.ch <- fmt.Sprintf("monitor: %v", err)
	default:
		o.ch <- m
	}
	return nil
}

func main() {
	gap := time.Duration(0)
	if len(os.Args) > 1 {
		gap = 1100 * time.Millisecond
	}
	opt := gen.NodeOptions{}
	opt.Network.Cookie = "abc"
	opt.Log.Level = gen.LogLevelError
	a, err := ergo.StartNode("a@localhost", opt)
	if err != nil {
		panic(err)
	}
	time.Sleep(gap)
	b, err := ergo.StartNode("b@localhost", opt)
	if err != nil {
		panic(err)
	}
	fmt.Println("creations", a.Creation(), b.Creation())
	ch := make(chan any, 10)
	opid, _ := a.Spawn(func() gen.ProcessBehavior { return &obs{} }, gen.ProcessOptions{}, ch)
	tpid, _ := b.Spawn(factoryPong, gen.ProcessOptions{})
	a.Send(opid, tpid)
	fmt.Println(<-ch)
	fmt.Println(<-ch)
	b.Kill(tpid)
	for i := 0; i < 2; i++ {
		select {
		case m := <-ch:
			fmt.Printf("observer got: %#v\n", m)
		case <-time.After(2 * time.Second):
			fmt.Println("TIMEOUT: no exit/down notification received")
		}
	}
	os.Exit(0)
}
