module triage

go 1.20
