package main

import (
	"fmt"
	"os"
	"sync/atomic"
	"time"

	"ergo.services/ergo"
	"ergo.services/ergo/act"
	"ergo.services/ergo/gen"
)

// ---- F-B meta: Start() returns while HandleMessage is running
type mb struct {
	gen.MetaProcess
	stop    chan struct{}
	entered chan struct{}
	release chan struct{}
	in      int32
}

func (m *mb) Init(p gen.MetaProcess) error { m.MetaProcess = p; return nil }
func (m *mb) Start() error                 { <-m.stop; return nil }
func (m *mb) HandleMessage(from gen.PID, message any) error {
	atomic.StoreInt32(&m.in, 1)
	m.entered <- struct{}{}
	<-m.release
	atomic.StoreInt32(&m.in, 0)
	return nil
}
func (m *mb) HandleCall(from gen.PID, ref gen.Ref, request any) (any, error) { return nil, nil }
func (m *mb) Terminate(reason error) {
	fmt.Println("  meta Terminate called, reason:", reason, " HandleMessage active:", atomic.LoadInt32(&m.in))
}
func (m *mb) HandleInspect(from gen.PID, item ...string) map[string]string { return nil }

type owner struct {
	act.Actor
	m  *mb
	ch chan gen.Alias
}

func (o *owner) Init(args ...any) error {
	o.m = args[0].(*mb)
	o.ch = args[1].(chan gen.Alias)
	return nil
}
func (o *owner) HandleMessage(from gen.PID, message any) error {
	a, err := o.SpawnMeta(o.m, gen.MetaOptions{})
	if err != nil {
		panic(err)
	}
	o.ch <- a
	return nil
}

// ---- F-F link vs termination race made deterministic with a blocking TargetManager
type slowTM struct {
	gen.TargetManager
	hold    chan struct{}
	reached chan struct{}
	armed   int32
}

func (s *slowTM) AddLink(c gen.PID, t any) error {
	if atomic.CompareAndSwapInt32(&s.armed, 1, 0) {
		s.reached <- struct{}{}
		<-s.hold
	}
	return s.TargetManager.AddLink(c, t)
}

type linker struct {
	act.Actor
	ch chan any
}

func (l *linker) Init(args ...any) error { l.ch = args[0].(chan any); l.SetTrapExit(true); return nil }
func (l *linker) HandleMessage(from gen.PID, m any) error {
	switch x := m.(type) {
	case gen.PID:
		l.ch <- fmt.Sprintf("LinkPID returned %v", l.LinkPID(x))
	default:
		l.ch <- fmt.Sprintf("got %#v", m)
	}
	return nil
}

func main() {
	opt := gen.NodeOptions{}
	opt.Network.Mode = gen.NetworkModeDisabled
	opt.Log.Level = gen.LogLevelError
	tm := &slowTM{TargetManager: gen.CreateDefaultTargetManager(), hold: make(chan struct{}), reached: make(chan struct{})}
	opt.TargetManager = tm
	n, _ := ergo.StartNode("x@localhost", opt)

	fmt.Println("== F-B")
	m := &mb{stop: make(chan struct{}), entered: make(chan struct{}, 1), release: make(chan struct{})}
	ach := make(chan gen.Alias, 1)
	op, _ := n.Spawn(func() gen.ProcessBehavior { return &owner{} }, gen.ProcessOptions{}, m, ach)
	n.Send(op, "spawnmeta")
	alias := <-ach
	time.Sleep(100 * time.Millisecond)
	n.Send(alias, "hello")
	<-m.entered
	close(m.stop) // main loop ends while handler is active
	time.Sleep(300 * time.Millisecond)
	close(m.release)

	fmt.Println("== F-F")
	ch := make(chan any, 10)
	type plain struct{ act.Actor }
	target, _ := n.Spawn(func() gen.ProcessBehavior { return &plain{} }, gen.ProcessOptions{})
	lp, _ := n.Spawn(func() gen.ProcessBehavior { return &linker{} }, gen.ProcessOptions{}, ch)
	atomic.StoreInt32(&tm.armed, 1)
	n.Send(lp, target)
	<-tm.reached // requester passed the existence check, about to insert the relation
	n.Kill(target)
	time.Sleep(300 * time.Millisecond) // target fully unregistered and drained
	close(tm.hold)
	fmt.Println(" ", <-ch)
	select {
	case x := <-ch:
		fmt.Println(" ", x)
	case <-time.After(1500 * time.Millisecond):
		_, e := n.ProcessInfo(target)
		fmt.Println("  no exit signal delivered; target state:", e, "; dangling relation:", tm.GetConsumersForTarget(target))
	}
	os.Exit(0)
}
