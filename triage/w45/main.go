// Witness w45 (property C18), written by the C18 seeding agent: the owner publishes 100 messages and unregisters the event at once; the
// termination notice travels round-robin (order 0) and overtakes the publications, which are then dropped on the subscriber node. Private netns.

package main

import (
	"fmt"
	"os"
	"time"

	"ergo.services/ergo"
	"ergo.services/ergo/act"
	"ergo.services/ergo/gen"
)

type fn func(p *worker) error

type worker struct {
	act.Actor
	events chan gen.MessageEvent
	downs  chan any
}

func (w *worker) Init(args ...any) error {
	w.events = args[0].(chan gen.MessageEvent)
	w.downs = args[1].(chan any)
	w.SetTrapExit(true)
	return nil
}

func (w *worker) HandleMessage(from gen.PID, message any) error {
	switch m := message.(type) {
	case fn:
		return m(w)
	default:
		w.downs <- message
	}
	return nil
}
func (w *worker) HandleEvent(ev gen.MessageEvent) error {
	w.events <- ev
	return nil
}

func spawn(node gen.Node) (gen.PID, chan gen.MessageEvent, chan any) {
	ev := make(chan gen.MessageEvent, 100000)
	d := make(chan any, 10000)
	pid, err := node.Spawn(func() gen.ProcessBehavior { return &worker{} }, gen.ProcessOptions{}, ev, d)
	if err != nil {
		panic(err)
	}
	return pid, ev, d
}

func do(node gen.Node, pid gen.PID, f func(w *worker) error) error {
	ch := make(chan error, 1)
	node.Send(pid, fn(func(w *worker) error { ch <- f(w); return nil }))
	select {
	case err := <-ch:
		return err
	case <-time.After(10 * time.Second):
		return fmt.Errorf("timeout")
	}
}

func main() {
	opt := gen.NodeOptions{}
	opt.Log.DefaultLogger.Disable = true
	opt.Network.Cookie = "123"
	nodeP, err := ergo.StartNode("p2prod@localhost", opt)
	if err != nil {
		panic(err)
	}
	defer nodeP.Stop()
	nodeS, err := ergo.StartNode("p2sub@localhost", opt)
	if err != nil {
		panic(err)
	}
	defer nodeS.Stop()
	if _, err := nodeS.Network().GetNode(nodeP.Name()); err != nil {
		panic(err)
	}

	bad := 0
	for round := 0; round < 50; round++ {
		prod, _, _ := spawn(nodeP)
		sub, evs, downs := spawn(nodeS)
		var token gen.Ref
		name := gen.Atom(fmt.Sprintf("ev%d", round))
		if err := do(nodeP, prod, func(w *worker) error {
			token, err = w.RegisterEvent(name, gen.EventOptions{})
			return err
		}); err != nil {
			panic(err)
		}
		ev := gen.Event{Name: name, Node: nodeP.Name()}
		if err := do(nodeS, sub, func(w *worker) error {
			_, err := w.MonitorEvent(ev)
			return err
		}); err != nil {
			panic(err)
		}
		const N = 100
		do(nodeP, prod, func(w *worker) error {
			for i := 0; i < N; i++ {
				if err := w.SendEvent(name, token, i); err != nil {
					return err
				}
			}
			return w.UnregisterEvent(name)
		})
		select {
		case <-downs:
		case <-time.After(5 * time.Second):
			fmt.Println("no down")
			os.Exit(1)
		}
		time.Sleep(50 * time.Millisecond)
		if len(evs) != N {
			fmt.Printf("round %d: got %d events of %d\n", round, len(evs), N)
			bad++
		}
		nodeP.Kill(prod)
		nodeS.Kill(sub)
	}
	fmt.Println("bad rounds:", bad)
}
