// Witness w47 (property C14/C04), after the C14 seeding agent's report: a process starts a child on another node with
// LinkChild. The link is recorded only in the local target manager, the child's node is never told: when the remote
// child is killed, its node has no consumer to notify and the parent never gets the exit signal.
// W47=parent checks the other direction (LinkParent: the remote child must go down with its parent).
// Run in a private network namespace (unshare -n).
package main

import (
	"fmt"
	"os"
	"time"

	"ergo.services/ergo"
	"ergo.services/ergo/act"
	"ergo.services/ergo/gen"
)

type child struct{ act.Actor }

type parent struct {
	act.Actor
	events chan any
}

func (p *parent) Init(args ...any) error {
	p.events = args[0].(chan any)
	p.SetTrapExit(true)
	return nil
}
func (p *parent) HandleMessage(from gen.PID, message any) error {
	switch m := message.(type) {
	case gen.Atom:
		pid, err := p.RemoteSpawn(m, "w47child", gen.ProcessOptions{LinkChild: os.Getenv("W47") != "parent", LinkParent: os.Getenv("W47") == "parent"})
		if err != nil {
			p.events <- err
			return nil
		}
		p.events <- pid
	default:
		p.events <- message
	}
	return nil
}

func main() {
	o1 := gen.NodeOptions{}
	o1.Network.Cookie = "w47"
	o1.Log.Level = gen.LogLevelDisabled
	o2 := o1
	n1, err := ergo.StartNode("w47a@localhost", o1)
	if err != nil {
		panic(err)
	}
	defer n1.StopForce()
	n2, err := ergo.StartNode("w47b@localhost", o2)
	if err != nil {
		panic(err)
	}
	defer n2.StopForce()
	if err := n2.Network().EnableSpawn("w47child", func() gen.ProcessBehavior { return &child{} }); err != nil {
		panic(err)
	}
	if _, err := n1.Network().GetNode(n2.Name()); err != nil {
		panic(err)
	}
	events := make(chan any, 10)
	ppid, err := n1.Spawn(func() gen.ProcessBehavior { return &parent{} }, gen.ProcessOptions{}, events)
	if err != nil {
		panic(err)
	}
	n1.Send(ppid, n2.Name())
	v := <-events
	cpid, ok := v.(gen.PID)
	if !ok {
		fmt.Println("remote spawn failed:", v)
		os.Exit(2)
	}
	fmt.Println("remote child:", cpid)
	time.Sleep(200 * time.Millisecond)
	if os.Getenv("W47") == "parent" {
		// LinkParent: the remote child has to go down with its parent
		n1.Kill(ppid)
		time.Sleep(2 * time.Second)
		if _, err := n2.ProcessInfo(cpid); err == nil {
			fmt.Println("WITNESS: the parent was killed 2 s ago, the remote child (LinkParent) is still running")
			os.Exit(1)
		}
		fmt.Println("remote child terminated with its parent\nquiet")
		return
	}
	if err := n2.Kill(cpid); err != nil {
		panic(err)
	}
	select {
	case m := <-events:
		fmt.Printf("parent got: %#v\nquiet\n", m)
	case <-time.After(2 * time.Second):
		fmt.Println("WITNESS: the remote child was killed 2 s ago, the parent (LinkChild) got no exit signal")
		os.Exit(1)
	}
}
