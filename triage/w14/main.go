// Witness w14 (property C08): all-for-one supervisor with Restart.KeepOrder. While the supervisor
// stops the group one child at a time (it has sent the exit to the last child and waits for it),
// another child of the group terminates on its own. The state machine panics with ErrInternal
// ("must be 0"), the supervisor process dies with reason panic and nobody is restarted.
//
// Expected by the property: after c1 and c2 were killed, a Permanent all-for-one supervisor is
// alive and runs three fresh children.
package main

import (
	"fmt"
	"os"
	"time"

	"ergo.services/ergo"
	"ergo.services/ergo/act"
	"ergo.services/ergo/gen"
)

type child struct{ act.Actor }

func factoryChild() gen.ProcessBehavior { return &child{} }

type sup struct{ act.Supervisor }

func factorySup() gen.ProcessBehavior { return &sup{} }

func (s *sup) Init(args ...any) (act.SupervisorSpec, error) {
	var spec act.SupervisorSpec
	spec.Type = act.SupervisorTypeAllForOne
	spec.Children = []act.SupervisorChildSpec{
		{Name: "c1", Factory: factoryChild},
		{Name: "c2", Factory: factoryChild},
		{Name: "c3", Factory: factoryChild},
	}
	spec.Restart.Strategy = act.SupervisorStrategyPermanent
	spec.Restart.Intensity = 10
	spec.Restart.Period = 5
	spec.Restart.KeepOrder = len(os.Args) < 2
	return spec, nil
}

func main() {
	opt := gen.NodeOptions{}
	opt.Network.Mode = gen.NetworkModeDisabled
	opt.Log.DefaultLogger.Disable = true
	node, err := ergo.StartNode("w14@localhost", opt)
	if err != nil {
		panic(err)
	}
	defer node.StopForce()
	spid, err := node.SpawnRegister("sup", factorySup, gen.ProcessOptions{})
	if err != nil {
		panic(err)
	}
	time.Sleep(300 * time.Millisecond)
	pid := func(name gen.Atom) gen.PID {
		l, _ := node.ProcessList()
		for _, p := range l {
			if i, err := node.ProcessInfo(p); err == nil && i.Name == name {
				return p
			}
		}
		return gen.PID{}
	}
	old := map[gen.Atom]gen.PID{"c1": pid("c1"), "c2": pid("c2"), "c3": pid("c3")}
	fmt.Println("children:", old)
	// two children die back to back: both exits are queued at the supervisor before it reacts
	node.Kill(old["c1"])
	node.Kill(old["c2"])
	time.Sleep(1500 * time.Millisecond)
	info, err := node.ProcessInfo(spid)
	alive := err == nil
	fmt.Println("supervisor alive:", alive, "state:", info.State, err)
	bad := !alive
	for _, n := range []gen.Atom{"c1", "c2", "c3"} {
		p := pid(n)
		fresh := p != (gen.PID{}) && p != old[n]
		fmt.Printf("  %s: %v fresh=%v\n", n, p, fresh)
		if !fresh {
			bad = true
		}
	}
	if bad {
		fmt.Println("VIOLATION (C08): after two children of a Permanent all-for-one (KeepOrder) supervisor terminated, the supervisor is gone or the group was not replaced")
		os.Exit(1)
	}
	fmt.Println("ok")
}
