// Witness w41 (property C17), written by the C17 seeding agent: RemoteNode.ApplicationStart (no explicit mode) starts a Permanent-spec
// application with mode 0: it behaves as Temporary (a member crash does not stop it). Private network namespace.

package main

import (
	"errors"
	"fmt"
	"os"
	"time"

	"ergo.services/ergo"
	"ergo.services/ergo/act"
	"ergo.services/ergo/gen"
)

type member struct{ act.Actor }

func factoryMember() gen.ProcessBehavior { return &member{} }

type demoApp struct{ terminated chan error }

func (a *demoApp) Load(n gen.Node, args ...any) (gen.ApplicationSpec, error) {
	return gen.ApplicationSpec{
		Name: "remapp",
		Mode: gen.ApplicationModePermanent,
		Group: []gen.ApplicationMemberSpec{
			{Name: "m1", Factory: factoryMember},
			{Name: "m2", Factory: factoryMember},
		},
	}, nil
}
func (a *demoApp) Start(mode gen.ApplicationMode) { fmt.Println("Start callback mode:", mode, int(mode)) }
func (a *demoApp) Terminate(reason error)         { a.terminated <- reason }

func main() {
	o1 := gen.NodeOptions{}
	o1.Network.Cookie = "123"
	o1.Log.DefaultLogger.Disable = true
	n1, err := ergo.StartNode("pre1a@localhost", o1)
	if err != nil {
		panic(err)
	}
	o2 := gen.NodeOptions{}
	o2.Network.Cookie = "123"
	o2.Log.DefaultLogger.Disable = true
	n2, err := ergo.StartNode("pre1b@localhost", o2)
	if err != nil {
		panic(err)
	}
	app := &demoApp{terminated: make(chan error, 4)}
	name, err := n2.ApplicationLoad(app)
	if err != nil {
		panic(err)
	}
	n2.Network().EnableApplicationStart(name)
	r2, err := n1.Network().GetNode(n2.Name())
	if err != nil {
		panic(err)
	}
	if err := r2.ApplicationStart(name, gen.ApplicationOptions{}); err != nil {
		panic(err)
	}
	info, _ := n2.ApplicationInfo(name)
	fmt.Println("info mode:", info.Mode, int(info.Mode), "state", info.State, "group", info.Group)
	n2.SendExit(info.Group[0], errors.New("crash"))
	select {
	case r := <-app.terminated:
		fmt.Println("terminated with", r)
		os.Exit(0)
	case <-time.After(2 * time.Second):
		info, _ := n2.ApplicationInfo(name)
		fmt.Println("NOT terminated: state", info.State, "group", info.Group)
		os.Exit(1)
	}
}
