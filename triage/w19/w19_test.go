package proto

// Witness w19 (properties C14/C12): a connection-level request (link, monitor, remote spawn, …)
// registers an UNBUFFERED result channel, sends its frame and only then enters waitResult. The
// frame handler delivers the peer's MessageResult with a non-blocking send. If the result arrives
// in the window between the frame write and the requester's select — a legal interleaving: the
// reader is another goroutine — nobody is receiving yet, the result is dropped, and the request
// ends with ErrTimeout after 5 s although the peer has executed it (e.g. the link exists remotely
// but LinkPID reports failure). Process calls do not have this problem: their response channel is
// buffered.
//
// This is a package-internal test (it has to stand between the two steps); it is copied into
// net/proto of a scratch worktree by triage/w19/run.sh and never lives in /repo.

import (
	"testing"
	"time"

	"ergo.services/ergo/gen"
)

func TestW19ResultBeforeWait(t *testing.T) {
	c := &connection{requests: make(map[gen.Ref]chan MessageResult)}
	ref := gen.Ref{Node: "w19@localhost", Creation: 1, ID: [3]uint64{1, 2, 3}}

	// what every request method does before it calls sendAny
	ch := make(chan MessageResult)
	if capOf := cap(makeResultChannelLikeTheCodeDoes()); capOf > 0 {
		ch = make(chan MessageResult, capOf)
	}
	c.requestsMutex.Lock()
	c.requests[ref] = ch
	c.requestsMutex.Unlock()

	// the frame was written; the peer is fast: its result is handled by the reader goroutine
	// before the requester gets to waitResult
	c.routeMessage(MessageResult{Ref: ref})

	start := time.Now()
	res := c.waitResult(ref, ch)
	if res.Error == gen.ErrTimeout {
		t.Fatalf("VIOLATION: the peer's result was delivered before the requester waited and was dropped; the request ended with %q after %s", res.Error, time.Since(start).Round(time.Second))
	}
	t.Logf("result received: %#v", res)
}
