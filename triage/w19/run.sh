#!/bin/sh
# usage: triage/w19/run.sh [tree]   (default /repo) — copies the tree's relevant state into a scratch worktree
set -e
tree="${1:-/repo}"
d=$(mktemp -d /tmp/w19.XXXXXX)
trap 'git -C /repo worktree remove --force "$d/t" 2>/dev/null; rm -rf "$d"' EXIT
rev=$(git -C "$tree" rev-parse HEAD)
git -C /repo worktree add -q --detach "$d/t" "$rev"
cp "$(dirname "$0")/w19_test.go" "$d/t/net/proto/zz_w19_test.go"
# the helper mirrors how the code under test creates its result channels (buffered or not)
if grep -q 'make(chan MessageResult, ' "$d/t/net/proto/connection.go"; then
  n=$(grep -o 'make(chan MessageResult, [0-9]*' "$d/t/net/proto/connection.go" | head -1 | grep -o '[0-9]*$')
  printf 'package proto\nfunc makeResultChannelLikeTheCodeDoes() chan MessageResult { return make(chan MessageResult, %s) }\n' "$n" > "$d/t/net/proto/zz_w19_helper_test.go"
else
  printf 'package proto\nfunc makeResultChannelLikeTheCodeDoes() chan MessageResult { return make(chan MessageResult) }\n' > "$d/t/net/proto/zz_w19_helper_test.go"
fi
cd "$d/t" && GOFLAGS=-mod=mod GOPROXY=off GOSUMDB=off GOTOOLCHAIN=local GOWORK=off go test -vet=off -count=1 -run TestW19 ./net/proto/
