// Demo for C18-f.
//
// Node O hosts a producer that registers an event with notifications enabled
// (gen.EventOptions.Notify). A process on another node (S) subscribes to this
// event twice - with a link and with a monitor (which is allowed: it gets every
// publication once, an exit and a down notification on termination).
//
//   - the producer is told about the first subscriber (MessageEventStart)
//   - the publications reach the remote subscriber exactly once
//   - node S goes down: the only subscriber is gone with it, so the producer
//     must be told that the last subscriber has gone (MessageEventStop)
//   - a new (local) subscriber arrives: it is the first one again, the producer
//     must be told about that (MessageEventStart)
//
// exit code 0 - PASS, 1 - FAIL (property violated)
//
// Opens sockets (registrar 4499, acceptors 11144+): run it in a private
// network namespace.
package main

import (
	"fmt"
	"os"
	"time"

	"ergo.services/ergo"
	"ergo.services/ergo/act"
	"ergo.services/ergo/gen"
)

const eventName = gen.Atom("demo_event")

type fn func(w *worker) error

type worker struct {
	act.Actor
	events chan gen.MessageEvent
	others chan any
}

func (w *worker) Init(args ...any) error {
	w.events = args[0].(chan gen.MessageEvent)
	w.others = args[1].(chan any)
	w.SetTrapExit(true)
	return nil
}

func (w *worker) HandleMessage(from gen.PID, message any) error {
	switch m := message.(type) {
	case fn:
		return m(w)
	default:
		// MessageEventStart/MessageEventStop, exit/down notifications
		w.others <- message
	}
	return nil
}

func (w *worker) HandleEvent(ev gen.MessageEvent) error {
	w.events <- ev
	return nil
}

func spawn(node gen.Node) (gen.PID, chan gen.MessageEvent, chan any) {
	ev := make(chan gen.MessageEvent, 1000)
	o := make(chan any, 1000)
	pid, err := node.Spawn(func() gen.ProcessBehavior { return &worker{} }, gen.ProcessOptions{}, ev, o)
	if err != nil {
		panic(err)
	}
	return pid, ev, o
}

// do runs f within the actor's goroutine and returns its result
func do(node gen.Node, pid gen.PID, f func(w *worker) error) error {
	ch := make(chan error, 1)
	if err := node.Send(pid, fn(func(w *worker) error { ch <- f(w); return nil })); err != nil {
		return err
	}
	select {
	case err := <-ch:
		return err
	case <-time.After(15 * time.Second):
		return fmt.Errorf("timeout")
	}
}

func fail(format string, args ...any) {
	fmt.Printf("FAIL: "+format+"\n", args...)
	os.Exit(1)
}

func expect(who string, ch chan any, timeout time.Duration) any {
	select {
	case m := <-ch:
		return m
	case <-time.After(timeout):
		return nil
	}
}

func main() {
	optO := gen.NodeOptions{}
	optO.Log.DefaultLogger.Disable = true
	optO.Network.Cookie = "demoC18f"
	nodeO, err := ergo.StartNode("demoC18fO@localhost", optO)
	if err != nil {
		panic(err)
	}
	defer nodeO.StopForce()

	optS := gen.NodeOptions{}
	optS.Log.DefaultLogger.Disable = true
	optS.Network.Cookie = "demoC18f"
	nodeS, err := ergo.StartNode("demoC18fS@localhost", optS)
	if err != nil {
		panic(err)
	}

	event := gen.Event{Name: eventName, Node: nodeO.Name()}

	producer, _, pnotes := spawn(nodeO)
	remoteSub, revents, rnotes := spawn(nodeS)
	localSub, levents, _ := spawn(nodeO)

	var token gen.Ref
	if err := do(nodeO, producer, func(w *worker) error {
		t, err := w.RegisterEvent(eventName, gen.EventOptions{Notify: true})
		token = t
		return err
	}); err != nil {
		fail("producer: RegisterEvent: %s", err)
	}

	// the remote process subscribes with a link and with a monitor
	if err := do(nodeS, remoteSub, func(w *worker) error {
		if _, err := w.LinkEvent(event); err != nil {
			return fmt.Errorf("LinkEvent: %w", err)
		}
		if _, err := w.MonitorEvent(event); err != nil {
			return fmt.Errorf("MonitorEvent: %w", err)
		}
		return nil
	}); err != nil {
		fail("remote subscriber: %s", err)
	}

	// the first subscriber has arrived
	switch m := expect("producer", pnotes, 5*time.Second).(type) {
	case gen.MessageEventStart:
		if m.Name != eventName {
			fail("producer: MessageEventStart for %s", m.Name)
		}
	default:
		fail("producer: expected MessageEventStart (the first subscriber has arrived), got %#v", m)
	}

	// publications
	const N = 3
	for i := 1; i <= N; i++ {
		i := i
		if err := do(nodeO, producer, func(w *worker) error {
			return w.SendEvent(eventName, token, i)
		}); err != nil {
			fail("producer: SendEvent(%d): %s", i, err)
		}
	}
	for i := 1; i <= N; i++ {
		select {
		case ev := <-revents:
			if v, _ := ev.Message.(int); v != i {
				fail("remote subscriber: expected publication %d, got %#v", i, ev.Message)
			}
		case <-time.After(5 * time.Second):
			fail("remote subscriber: publication %d has not been delivered", i)
		}
	}
	time.Sleep(300 * time.Millisecond)
	if len(revents) > 0 {
		fail("remote subscriber: got publication %#v once again", (<-revents).Message)
	}
	if len(rnotes) > 0 {
		fail("remote subscriber: unexpected message %#v", <-rnotes)
	}
	if len(pnotes) > 0 {
		fail("producer: unexpected message %#v", <-pnotes)
	}

	// node S goes down. the only subscriber is gone with it
	nodeS.Kill(remoteSub)
	defer nodeS.StopForce()

	switch m := expect("producer", pnotes, 10*time.Second).(type) {
	case gen.MessageEventStop:
		if m.Name != eventName {
			fail("producer: MessageEventStop for %s", m.Name)
		}
	default:
		fail("producer: the node of the only subscriber is down. expected MessageEventStop "+
			"(the last subscriber has gone), got %#v", m)
	}

	// a new subscriber. it is the first one again
	if err := do(nodeO, localSub, func(w *worker) error {
		_, err := w.MonitorEvent(event)
		return err
	}); err != nil {
		fail("local subscriber: MonitorEvent: %s", err)
	}
	switch m := expect("producer", pnotes, 5*time.Second).(type) {
	case gen.MessageEventStart:
	default:
		fail("producer: expected MessageEventStart (the first subscriber has arrived again), got %#v", m)
	}

	if err := do(nodeO, producer, func(w *worker) error {
		return w.SendEvent(eventName, token, 100)
	}); err != nil {
		fail("producer: SendEvent(100): %s", err)
	}
	select {
	case ev := <-levents:
		if v, _ := ev.Message.(int); v != 100 {
			fail("local subscriber: expected publication 100, got %#v", ev.Message)
		}
	case <-time.After(5 * time.Second):
		fail("local subscriber: publication 100 has not been delivered")
	}

	// the last one unsubscribes
	if err := do(nodeO, localSub, func(w *worker) error {
		return w.DemonitorEvent(event)
	}); err != nil {
		fail("local subscriber: DemonitorEvent: %s", err)
	}
	switch m := expect("producer", pnotes, 5*time.Second).(type) {
	case gen.MessageEventStop:
	default:
		fail("producer: expected MessageEventStop (the last subscriber has unsubscribed), got %#v", m)
	}
	time.Sleep(200 * time.Millisecond)
	if len(pnotes) > 0 {
		fail("producer: unexpected message %#v", <-pnotes)
	}

	fmt.Println("PASS")
}
