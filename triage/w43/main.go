// Witness w43 (property C12), written by the C12 seeding agent: after a pool link is re-dialled the pool item keeps the writer of
// the old, closed socket: every message routed to that item is dropped while Send reports success. Private network namespace.

// scratch: is a message lost after a pool link has been re-dialed? (unchanged tree)
package main

import (
	"fmt"
	"io"
	"net"
	"os"
	"sync"
	"sync/atomic"
	"time"

	"ergo.services/ergo"
	"ergo.services/ergo/act"
	"ergo.services/ergo/gen"
)

var got int64

type receiver struct{ act.Actor }

func factoryReceiver() gen.ProcessBehavior { return &receiver{} }
func (r *receiver) HandleMessage(from gen.PID, message any) error {
	if _, ok := message.(int); ok {
		atomic.AddInt64(&got, 1)
	}
	return nil
}

type proxy struct {
	sync.Mutex
	conns []net.Conn
}

func (p *proxy) run(l net.Listener, target string) {
	for {
		c, err := l.Accept()
		if err != nil {
			return
		}
		t, err := net.Dial("tcp", target)
		if err != nil {
			c.Close()
			continue
		}
		p.Lock()
		p.conns = append(p.conns, c, t)
		p.Unlock()
		go func() { io.Copy(t, c); t.Close(); c.Close() }()
		go func() { io.Copy(c, t); t.Close(); c.Close() }()
	}
}
func (p *proxy) kill() int {
	p.Lock()
	defer p.Unlock()
	n := len(p.conns) / 2
	for _, c := range p.conns {
		c.Close()
	}
	p.conns = nil
	return n
}

func main() {
	optA := gen.NodeOptions{}
	optA.Network.Cookie = "x"
	optA.Log.DefaultLogger.Disable = true
	nodeA, err := ergo.StartNode("rdA@localhost", optA)
	if err != nil {
		panic(err)
	}
	optB := gen.NodeOptions{}
	optB.Network.Cookie = "x"
	optB.Log.DefaultLogger.Disable = true
	nodeB, err := ergo.StartNode("rdB@localhost", optB)
	if err != nil {
		panic(err)
	}
	pidB, err := nodeB.Spawn(factoryReceiver, gen.ProcessOptions{})
	if err != nil {
		panic(err)
	}

	// B's port
	reg, _ := nodeA.Network().Registrar()
	routes, err := reg.Resolver().Resolve(nodeB.Name())
	if err != nil {
		panic(err)
	}
	portB := routes[0].Port

	l, err := net.Listen("tcp", "127.0.0.1:0")
	if err != nil {
		panic(err)
	}
	px := &proxy{}
	go px.run(l, fmt.Sprintf("127.0.0.1:%d", portB))
	proxyPort := uint16(l.Addr().(*net.TCPAddr).Port)

	route := gen.NetworkRoute{Route: routes[0]}
	route.Route.Host = "127.0.0.1"
	route.Route.Port = proxyPort
	if _, err := nodeA.Network().GetNodeWithRoute(nodeB.Name(), route); err != nil {
		panic(err)
	}
	time.Sleep(500 * time.Millisecond)
	rn, _ := nodeA.Network().Node(nodeB.Name())
	fmt.Printf("connected, pool size %d, dsn %v\n", rn.Info().PoolSize, rn.Info().PoolDSN)

	send := func(n int) int64 {
		atomic.StoreInt64(&got, 0)
		for i := 0; i < n; i++ {
			if err := nodeA.Send(pidB, i); err != nil {
				fmt.Println("send error:", err)
			}
			time.Sleep(time.Millisecond)
		}
		time.Sleep(500 * time.Millisecond)
		return atomic.LoadInt64(&got)
	}
	fmt.Printf("before: delivered %d of 300\n", send(300))
	fmt.Printf("killed %d proxied link(s)\n", px.kill())
	time.Sleep(time.Second)
	if _, err := nodeA.Network().Node(nodeB.Name()); err != nil {
		fmt.Println("connection is gone:", err)
		os.Exit(2)
	}
	d := send(300)
	fmt.Printf("after the re-dial: delivered %d of 300\n", d)
	if d != 300 {
		os.Exit(1)
	}
}
