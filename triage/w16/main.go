// Witness w16 (property C15): application-start permissions. node2 enables the start of an
// application for ONE peer ("trusted@localhost"), then disables it for that peer again. The
// allow list is now empty, and an empty list means "anyone": node1 — never enabled — can start
// the application on node2. (The sibling DisableSpawn records `false` instead of deleting the
// entry and does not have this effect.)
//
// run under: flock /tmp/ergo-test.lock (two nodes with networking, default ports)
package main

import (
	"fmt"
	"os"

	"ergo.services/ergo"
	"ergo.services/ergo/act"
	"ergo.services/ergo/gen"
)

type app struct{}

func (a *app) Load(node gen.Node, args ...any) (gen.ApplicationSpec, error) {
	return gen.ApplicationSpec{
		Name:  "w16app",
		Group: []gen.ApplicationMemberSpec{{Name: "w16member", Factory: func() gen.ProcessBehavior { return &member{} }}},
	}, nil
}
func (a *app) Start(mode gen.ApplicationMode) {}
func (a *app) Terminate(reason error)         {}

type member struct{ act.Actor }

func main() {
	o1 := gen.NodeOptions{}
	o1.Network.Cookie = "w16"
	o1.Log.DefaultLogger.Disable = true
	node1, err := ergo.StartNode("w16node1@localhost", o1)
	if err != nil {
		panic(err)
	}
	defer node1.StopForce()
	o2 := gen.NodeOptions{}
	o2.Network.Cookie = "w16"
	o2.Log.DefaultLogger.Disable = true
	node2, err := ergo.StartNode("w16node2@localhost", o2)
	if err != nil {
		panic(err)
	}
	defer node2.StopForce()

	name, err := node2.ApplicationLoad(&app{})
	if err != nil {
		panic(err)
	}
	// only "trusted@localhost" may start it ...
	if err := node2.Network().EnableApplicationStart(name, "trusted@localhost"); err != nil {
		panic(err)
	}
	remote2, err := node1.Network().GetNode(node2.Name())
	if err != nil {
		panic(err)
	}
	err = remote2.ApplicationStart(name, gen.ApplicationOptions{})
	fmt.Println("node1 (not in the list) asks to start the app:", err)
	if err != gen.ErrNotAllowed {
		fmt.Println("unexpected: the restriction itself does not work")
		os.Exit(2)
	}
	// ... and then not even that one
	if err := node2.Network().DisableApplicationStart(name, "trusted@localhost"); err != nil {
		panic(err)
	}
	err = remote2.ApplicationStart(name, gen.ApplicationOptions{})
	fmt.Println("after DisableApplicationStart(app, trusted): node1 asks again:", err)
	if err == nil {
		fmt.Println("VIOLATION (C15): disabling the only allowed peer opened the application start to every connected peer")
		os.Exit(1)
	}
	fmt.Println("ok")
}
