// Witness w38 (property C05), written by the C05 seeding agent: a process started by node.Spawn (its parent is the core)
// that traps exits and is linked to a remote process is terminated when the connection drops, instead of getting the exit as a message.
// run in a private network namespace (unshare -n).

// pre-existing issue check: a trapping process spawned by the node (parent = core pid)
// linked to a remote pid: on node down the exit signal is sent with From = core pid
// and is not trapped.
package main

import (
	"fmt"
	"os"
	"time"

	"ergo.services/ergo"
	"ergo.services/ergo/act"
	"ergo.services/ergo/gen"
)

type target struct{ act.Actor }

type trapper struct {
	act.Actor
	res  chan error
	got  chan any
	term chan error
}

func (t *trapper) Init(args ...any) error {
	t.res = args[0].(chan error)
	t.got = args[1].(chan any)
	t.term = args[2].(chan error)
	t.SetTrapExit(true)
	return nil
}
func (t *trapper) HandleMessage(from gen.PID, message any) error {
	switch m := message.(type) {
	case gen.PID:
		t.res <- t.LinkPID(m)
	case string:
		rn, err := t.Node().Network().Node(gen.Atom(m))
		if err != nil {
			t.res <- err
			return nil
		}
		rn.Disconnect()
		t.res <- nil
	default:
		t.got <- message
	}
	return nil
}
func (t *trapper) Terminate(reason error) { t.term <- reason }

func main() {
	o1 := gen.NodeOptions{}
	o1.Network.Cookie = "123"
	o1.Log.DefaultLogger.Disable = true
	n1, err := ergo.StartNode("pre1a@localhost", o1)
	if err != nil {
		fmt.Println(err)
		os.Exit(2)
	}
	o2 := gen.NodeOptions{}
	o2.Network.Cookie = "123"
	o2.Log.DefaultLogger.Disable = true
	n2, err := ergo.StartNode("pre1b@localhost", o2)
	if err != nil {
		fmt.Println(err)
		os.Exit(2)
	}
	tpid, err := n2.Spawn(func() gen.ProcessBehavior { return &target{} }, gen.ProcessOptions{})
	if err != nil {
		fmt.Println(err)
		os.Exit(2)
	}
	res := make(chan error, 1)
	got := make(chan any, 1)
	term := make(chan error, 1)
	pid, err := n1.Spawn(func() gen.ProcessBehavior { return &trapper{} }, gen.ProcessOptions{}, res, got, term)
	if err != nil {
		fmt.Println(err)
		os.Exit(2)
	}
	n1.Send(pid, tpid)
	if err := <-res; err != nil {
		fmt.Println("link:", err)
		os.Exit(2)
	}
	n1.Send(pid, "pre1b@localhost")
	if err := <-res; err != nil {
		fmt.Println("disconnect:", err)
		os.Exit(2)
	}
	select {
	case m := <-got:
		fmt.Printf("PASS: trapped %#v\n", m)
		os.Exit(0)
	case r := <-term:
		fmt.Printf("FAIL: trapping process terminated with reason: %v\n", r)
		os.Exit(1)
	case <-time.After(3 * time.Second):
		fmt.Println("nothing happened")
		os.Exit(2)
	}
}
