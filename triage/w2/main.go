package main

import (
	"errors"
	"fmt"
	"os"
	"strings"
	"sync/atomic"
	"time"

	"ergo.services/ergo"
	"ergo.services/ergo/act"
	"ergo.services/ergo/gen"
	"ergo.services/ergo/lib"
	"ergo.services/ergo/net/edf"
)

type busy struct {
	act.Actor
	in, overlap *int32
	entered     chan struct{}
	release     chan struct{}
}

func (b *busy) HandleMessage(from gen.PID, m any) error {
	atomic.AddInt32(b.in, 1)
	b.entered <- struct{}{}
	<-b.release
	atomic.AddInt32(b.in, -1)
	return nil
}
func (b *busy) Terminate(reason error) {
	if atomic.LoadInt32(b.in) > 0 {
		atomic.AddInt32(b.overlap, 1)
	}
	fmt.Println("  Terminate called, reason:", reason, "handler active:", atomic.LoadInt32(b.in))
}

type linker struct {
	act.Actor
	ch chan any
}

func (l *linker) Init(args ...any) error { l.ch = args[0].(chan any); return nil }
func (l *linker) HandleMessage(from gen.PID, m any) error {
	switch x := m.(type) {
	case gen.PID:
		l.ch <- l.LinkPID(x)
		l.ch <- l.MonitorPID(x)
	case string:
		a0, _ := l.CreateAlias()
		a1, _ := l.CreateAlias()
		err := l.DeleteAlias(a1)
		l.ch <- fmt.Sprintf("created a0=%v a1=%v; DeleteAlias(a1)=%v; Aliases()=%v", a0.ID, a1.ID, err, l.Aliases())
	}
	return nil
}

func main() {
	opt := gen.NodeOptions{}
	opt.Network.Mode = gen.NetworkModeDisabled
	opt.Log.Level = gen.LogLevelError
	tm := gen.CreateDefaultTargetManager()
	opt.TargetManager = tm
	n, err := ergo.StartNode("x@localhost", opt)
	if err != nil {
		panic(err)
	}

	fmt.Println("== F-A double Kill on a busy process")
	var in, overlap int32
	b := &busy{in: &in, overlap: &overlap, entered: make(chan struct{}, 1), release: make(chan struct{})}
	pid, _ := n.Spawn(func() gen.ProcessBehavior { return b }, gen.ProcessOptions{})
	n.Send(pid, "go")
	<-b.entered
	n.Kill(pid)
	n.Kill(pid)
	time.Sleep(300 * time.Millisecond)
	close(b.release)
	time.Sleep(200 * time.Millisecond)
	fmt.Println("  overlap count:", overlap)

	fmt.Println("== F-C MakeRef repeats")
	c := n.(gen.Core)
	first := c.MakeRef()
	seen := 0
	for i := 1; i <= 1<<18; i++ {
		r := c.MakeRef()
		if r == first {
			seen = i
			break
		}
	}
	fmt.Println("  first ref repeated after", seen, "calls")

	fmt.Println("== F-D consumer relations after requester terminated")
	ch := make(chan any, 10)
	tpid, _ := n.Spawn(func() gen.ProcessBehavior { return &act.Actor{} }, gen.ProcessOptions{})
	_ = tpid
	type plain struct{ act.Actor }
	target, _ := n.Spawn(func() gen.ProcessBehavior { return &plain{} }, gen.ProcessOptions{})
	lp, _ := n.Spawn(func() gen.ProcessBehavior { return &linker{} }, gen.ProcessOptions{}, ch)
	n.Send(lp, target)
	fmt.Println("  link:", <-ch, "monitor:", <-ch)
	n.Send(lp, "aliases")
	fmt.Println("== F-E", <-ch)
	n.Kill(lp)
	time.Sleep(200 * time.Millisecond)
	_, e := n.ProcessInfo(lp)
	fmt.Println("  requester gone:", e, " consumers still registered for target:", tm.GetConsumersForTarget(target))
	info, _ := n.Info()
	fmt.Println("  RegisteredAliases after requester terminated:", info.RegisteredAliases)

	fmt.Println("== F-H string boundary")
	for _, l := range []int{65533, 65534, 65535} {
		s := strings.Repeat("a", l)
		buf := lib.TakeBuffer()
		err := edf.Encode(s, buf, edf.Options{})
		v, _, derr := edf.Decode(buf.B, edf.Options{})
		ok := false
		if x, is := v.(string); is && x == s {
			ok = true
		}
		fmt.Printf("  len=%d encode err=%v decode err=%v roundtrip=%v\n", l, err, derr, ok)
	}
	fmt.Println("== F-I error text with %")
	buf := lib.TakeBuffer()
	edf.Encode(errors.New("load 100% done %d"), buf, edf.Options{})
	v, _, derr := edf.Decode(buf.B, edf.Options{})
	fmt.Printf("  decoded: %q err=%v\n", v, derr)
	os.Exit(0)
}
