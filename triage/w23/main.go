// Witness w23 (property C20): the cron's "next minute" is the zero time until the first minute
// tick. A job added before that tick (every job given in the node options, or added within the
// first minute) is matched against 0001-01-01 00:00 instead of the coming minute: a yearly job
// "0 0 1 1 *" is put into the spool at once and fires at the first tick after every node start;
// a job that does match the coming minute is not spooled for it.
package main

import (
	"fmt"
	"os"
	"time"

	"ergo.services/ergo"
	"ergo.services/ergo/gen"
)

type act struct{ fired chan time.Time }

func (a act) Do(job gen.Atom, node gen.Node, t time.Time) error { a.fired <- t; return nil }
func (a act) Info() string                                      { return "w23" }

func main() {
	opt := gen.NodeOptions{}
	opt.Network.Mode = gen.NetworkModeDisabled
	opt.Log.DefaultLogger.Disable = true
	node, err := ergo.StartNode("w23@localhost", opt)
	if err != nil {
		panic(err)
	}
	defer node.StopForce()
	now := time.Now().UTC()
	if now.Month() == 1 && now.Day() == 1 && now.Hour() == 0 && now.Minute() <= 1 {
		fmt.Println("run me at another time of the year")
		os.Exit(2)
	}
	yearly := act{make(chan time.Time, 1)}
	if err := node.Cron().AddJob(gen.CronJob{Name: "yearly", Spec: "0 0 1 1 *", Location: time.UTC, Action: yearly}); err != nil {
		panic(err)
	}
	info := node.Cron().Info()
	fmt.Println("next:", info.Next, "spool right after AddJob:", info.Spool)
	bad := false
	for _, j := range info.Spool {
		if j == "yearly" {
			fmt.Println("the job for January 1st 00:00 is scheduled for the coming minute (" + now.Add(time.Minute).Truncate(time.Minute).Format("Jan 2 15:04") + ")")
			bad = true
		}
	}
	if len(os.Args) > 1 { // wait for the tick as well
		select {
		case t := <-yearly.fired:
			fmt.Println("yearly job FIRED at", t.UTC().Format("Jan 2 15:04:05"))
			bad = true
		case <-time.After(70 * time.Second):
			fmt.Println("not fired within 70s")
		}
	}
	if bad {
		fmt.Println("VIOLATION (C20): a job fires at a minute its spec does not match")
		os.Exit(1)
	}
	fmt.Println("ok")
}
