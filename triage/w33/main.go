// Witness w33 (property C11): values the encoder accepts but that do not come back equal
//   (a) map with an array key            (b) slice of zero-size elements
//   (c) unregistered named slice / map   (d) named primitive
package main

import (
	"fmt"
	"os"
	"reflect"

	"ergo.services/ergo/lib"
	"ergo.services/ergo/net/edf"
)

type Empty struct{}
type NamedSlice []int
type NamedMap map[string]int
type NamedInt int
type NamedArr [2]int

func main() {
	edf.RegisterTypeOf(Empty{})
	bad := 0
	try := func(label string, v any) {
		b := lib.TakeBuffer()
		defer lib.ReleaseBuffer(b)
		if err := edf.Encode(v, b, edf.Options{}); err != nil {
			fmt.Printf("%-28s rejected by the encoder: %v\n", label, err)
			return
		}
		out, tail, err := edf.Decode(b.B, edf.Options{})
		switch {
		case err != nil:
			fmt.Printf("%-28s ENCODES, decode fails: %v\n", label, err)
			bad++
		case len(tail) != 0 || !reflect.DeepEqual(out, v):
			fmt.Printf("%-28s ENCODES, decodes to %T %v (%d bytes left)\n", label, out, out, len(tail))
			bad++
		default:
			fmt.Printf("%-28s ok\n", label)
		}
	}
	try("map[[2]int]string", map[[2]int]string{{1, 2}: "a"})
	try("map[string][2]int", map[string][2]int{"a": {1, 2}})
	try("[]Empty", []Empty{{}, {}, {}})
	try("[][0]int", [][0]int{{}, {}})
	try("[3]Empty", [3]Empty{})
	try("NamedSlice (unregistered)", NamedSlice{1, 2})
	try("NamedMap (unregistered)", NamedMap{"a": 1})
	try("NamedArr (unregistered)", NamedArr{1, 2})
	try("NamedInt (unregistered)", NamedInt(5))
	try("[]any{NamedInt}", []any{NamedInt(5)})
	if bad > 0 {
		fmt.Println("WITNESS:", bad, "value(s) encode but do not decode to an equal value of the same type")
		os.Exit(1)
	}
	fmt.Println("quiet")
}
