// Witness w26 (property C14): node B connects to node A and is stopped right away, while the
// additional links of its connection pool are still being dialled. connection.Terminate closes the
// links in the pool; a link that is joined concurrently (Join checked `terminated` before taking
// the pool lock) is added afterwards and never closed. As long as the OS process lives, node A keeps
// serving that link: it never learns that B is gone, and the process monitoring B gets no DownNode.
//
// Several rounds, each with fresh nodes; the window is hit in a fraction of them.
// run inside a private network namespace (or under flock /tmp/ergo-test.lock).
package main

import (
	"fmt"
	"os"
	"time"

	"ergo.services/ergo"
	"ergo.services/ergo/act"
	"ergo.services/ergo/gen"
)

var notes = make(chan string, 64)

type watcher struct{ act.Actor }

func (w *watcher) HandleMessage(from gen.PID, message any) error {
	switch m := message.(type) {
	case gen.Atom:
		notes <- fmt.Sprintf("monitor %s: %v", m, w.MonitorNode(m))
	case gen.MessageDownNode:
		notes <- fmt.Sprintf("down %s", m.Name)
	}
	return nil
}

func main() {
	o := gen.NodeOptions{}
	o.Network.Cookie = "w26"
	o.Log.DefaultLogger.Disable = true
	a, err := ergo.StartNode("w26a@localhost", o)
	if err != nil {
		panic(err)
	}
	defer a.StopForce()
	wa, _ := a.Spawn(func() gen.ProcessBehavior { return &watcher{} }, gen.ProcessOptions{})
	missed := 0
	rounds := 30
	for i := 0; i < rounds; i++ {
		name := gen.Atom(fmt.Sprintf("w26b%d@localhost", i))
		b, err := ergo.StartNode(name, o)
		if err != nil {
			panic(err)
		}
		// B dials A
		if _, err := b.Network().GetNode(a.Name()); err != nil {
			panic(err)
		}
		a.Send(wa, name)
		for {
			n := <-notes
			if n == fmt.Sprintf("monitor %s: <nil>", name) {
				break
			}
			fmt.Println("  (late)", n)
		}
		b.StopForce() // right away: the pool of B's connection is still being filled
		select {
		case n := <-notes:
			if n != fmt.Sprintf("down %s", name) {
				fmt.Println("  (late)", n)
			}
		case <-time.After(3 * time.Second):
			fmt.Printf("round %d: node %s was stopped 3s ago, node A has not noticed\n", i, name)
			missed++
		}
	}
	if missed > 0 {
		fmt.Printf("VIOLATION (C14): in %d of %d rounds the surviving node never got the node-down (a pool link joined during the termination stays open)\n", missed, rounds)
		os.Exit(1)
	}
	fmt.Println("ok")
}
