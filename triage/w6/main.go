package main

import (
	"encoding/binary"
	"fmt"
	"runtime"

	"ergo.services/ergo/lib"
	"ergo.services/ergo/net/edf"
	"ergo.services/ergo/gen"
)

type M map[string]int

func main() {
	// F-N1: 13-byte compressed frame body declaring 1 GiB
	src := lib.TakeBuffer()
	src.Allocate(9 + 4 + 2)
	binary.BigEndian.PutUint32(src.B[9:13], 1<<30)
	var m0, m1 runtime.MemStats
	runtime.ReadMemStats(&m0)
	_, err := lib.DecompressGZIP(src, 9)
	runtime.ReadMemStats(&m1)
	fmt.Printf("DecompressGZIP(input %d bytes, declared 1GiB): err=%v, bytes allocated during call=%d MiB\n", src.Len(), err, (m1.TotalAlloc-m0.TotalAlloc)>>20)
	runtime.ReadMemStats(&m0)
	_, err = lib.DecompressLZW(src, 9)
	runtime.ReadMemStats(&m1)
	fmt.Printf("DecompressLZW(input %d bytes, declared 1GiB): err=%v, bytes allocated during call=%d MiB\n", src.Len(), err, (m1.TotalAlloc-m0.TotalAlloc)>>20)

	// F-N2: registered map type: count 2^28 in a 9 byte body
	if err := edf.RegisterTypeOf(M{}); err != nil && err != gen.ErrTaken {
		panic(err)
	}
	b := lib.TakeBuffer()
	edf.Encode(M{"a": 1}, b, edf.Options{})
	// find the edtReg(131) marker that starts the map body: prefix is [131, len, name...] then body [131, n(4)...]
	body := -1
	for i := len(b.B) - 1; i >= 0; i-- {
		if b.B[i] == 131 {
			body = i
			break
		}
	}
	pkt := append([]byte{}, b.B[:body+5]...)
	binary.BigEndian.PutUint32(pkt[body+1:body+5], 1<<28)
	runtime.ReadMemStats(&m0)
	_, _, err = edf.Decode(pkt, edf.Options{})
	runtime.ReadMemStats(&m1)
	fmt.Printf("Decode(registered map, input %d bytes, declared 2^28 entries): err=%v, bytes allocated=%d MiB\n", len(pkt), err, (m1.TotalAlloc-m0.TotalAlloc)>>20)
}
