// Witness w15 (property C08): rest-for-one supervisor (no KeepOrder), children c1..c4, Permanent.
// c3 terminates: the supervisor stops c4 and waits for it (restart position = c3). While it waits,
// c1 — a child in front of the restarting range — terminates too. The state machine only keeps
// waiting; when c4 is gone it restarts c3 and c4. c1 is never restarted although the strategy is
// Permanent, and c2 (started after c1) is not replaced either.
package main

import (
	"fmt"
	"os"
	"time"

	"ergo.services/ergo"
	"ergo.services/ergo/act"
	"ergo.services/ergo/gen"
)

type child struct{ act.Actor }

func factoryChild() gen.ProcessBehavior { return &child{} }

type sup struct{ act.Supervisor }

func factorySup() gen.ProcessBehavior { return &sup{} }

func (s *sup) Init(args ...any) (act.SupervisorSpec, error) {
	var spec act.SupervisorSpec
	spec.Type = act.SupervisorTypeRestForOne
	spec.Children = []act.SupervisorChildSpec{
		{Name: "c1", Factory: factoryChild},
		{Name: "c2", Factory: factoryChild},
		{Name: "c3", Factory: factoryChild},
		{Name: "c4", Factory: factoryChild},
	}
	spec.Restart.Strategy = act.SupervisorStrategyPermanent
	spec.Restart.Intensity = 10
	spec.Restart.Period = 5
	spec.Restart.KeepOrder = false
	return spec, nil
}

func main() {
	opt := gen.NodeOptions{}
	opt.Network.Mode = gen.NetworkModeDisabled
	opt.Log.DefaultLogger.Disable = true
	node, err := ergo.StartNode("w15@localhost", opt)
	if err != nil {
		panic(err)
	}
	defer node.StopForce()
	spid, err := node.SpawnRegister("sup", factorySup, gen.ProcessOptions{})
	if err != nil {
		panic(err)
	}
	time.Sleep(300 * time.Millisecond)
	pid := func(name gen.Atom) gen.PID {
		l, _ := node.ProcessList()
		for _, p := range l {
			if i, err := node.ProcessInfo(p); err == nil && i.Name == name {
				return p
			}
		}
		return gen.PID{}
	}
	old := map[gen.Atom]gen.PID{"c1": pid("c1"), "c2": pid("c2"), "c3": pid("c3"), "c4": pid("c4")}
	fmt.Println("children:", old)
	// two children die back to back: both exits are queued at the supervisor before it reacts
	node.Kill(old["c3"])
	node.Kill(old["c1"])
	time.Sleep(1500 * time.Millisecond)
	info, err := node.ProcessInfo(spid)
	alive := err == nil
	fmt.Println("supervisor alive:", alive, "state:", info.State, err)
	bad := !alive
	for _, n := range []gen.Atom{"c1", "c2", "c3", "c4"} {
		p := pid(n)
		fresh := p != (gen.PID{}) && p != old[n]
		fmt.Printf("  %s: %v fresh=%v\n", n, p, fresh)
		if !fresh {
			bad = true
		}
	}
	if bad {
		fmt.Println("VIOLATION (C08): c3 and then c1 of a Permanent rest-for-one supervisor terminated; every child must have been replaced (rest-for-one from c1), but a terminated Permanent child stays down")
		os.Exit(1)
	}
	fmt.Println("ok")
}
