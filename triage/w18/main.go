// Witness w18 (property C10): a pool whose third worker fails to initialise. Pool.ProcessInit
// returns the error, the pool process is never started — but the two workers it had already
// spawned (LinkParent only) keep running: spawn's failure path notifies only processes the failed
// process linked TO (LinkChild), not the ones linked to it.
package main

import (
	"errors"
	"fmt"
	"os"
	"sync/atomic"
	"time"

	"ergo.services/ergo"
	"ergo.services/ergo/act"
	"ergo.services/ergo/gen"
)

var started int32

type worker struct{ act.Actor }

func (w *worker) Init(args ...any) error {
	if atomic.AddInt32(&started, 1) == 3 {
		return errors.New("third worker fails")
	}
	return nil
}

type pool struct{ act.Pool }

func (p *pool) Init(args ...any) (act.PoolOptions, error) {
	return act.PoolOptions{PoolSize: 3, WorkerFactory: func() gen.ProcessBehavior { return &worker{} }}, nil
}

func main() {
	opt := gen.NodeOptions{}
	opt.Network.Mode = gen.NetworkModeDisabled
	opt.Log.DefaultLogger.Disable = true
	node, err := ergo.StartNode("w18@localhost", opt)
	if err != nil {
		panic(err)
	}
	defer node.StopForce()
	before, _ := node.ProcessList()
	_, err = node.Spawn(func() gen.ProcessBehavior { return &pool{} }, gen.ProcessOptions{})
	fmt.Println("spawn of the pool:", err)
	if err == nil {
		fmt.Println("unexpected: the pool started")
		os.Exit(2)
	}
	time.Sleep(500 * time.Millisecond)
	after, _ := node.ProcessList()
	known := map[gen.PID]bool{}
	for _, p := range before {
		known[p] = true
	}
	orphans := 0
	for _, p := range after {
		if known[p] {
			continue
		}
		info, _ := node.ProcessInfo(p)
		fmt.Printf("still running: %s behavior=%s parent=%s\n", p, info.Behavior, info.Parent)
		orphans++
	}
	if orphans > 0 {
		fmt.Printf("VIOLATION (C10): the pool never came up, but %d worker(s) it had started keep running\n", orphans)
		os.Exit(1)
	}
	fmt.Println("ok")
}
