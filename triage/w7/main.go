package main

import (
	"fmt"
	"os"
	"strings"
	"time"

	"ergo.services/ergo"
	"ergo.services/ergo/act"
	"ergo.services/ergo/gen"
)

type recv struct {
	act.Actor
	got chan int
}

func (r *recv) Init(args ...any) error { r.got = args[0].(chan int); return nil }
func (r *recv) HandleMessage(from gen.PID, m any) error {
	r.got <- len(m.(string))
	return nil
}

type sender struct {
	act.Actor
	res chan string
}

func (s *sender) Init(args ...any) error { s.res = args[0].(chan string); return nil }
func (s *sender) HandleMessage(from gen.PID, m any) error {
	to := m.(gen.PID)
	for _, tc := range []struct {
		size     int
		compress bool
	}{{100, false}, {20000, false}, {100, true}, {20000, true}} {
		s.SetCompression(tc.compress)
		t0 := time.Now()
		err := s.SendImportant(to, strings.Repeat("x", tc.size))
		s.res <- fmt.Sprintf("SendImportant size=%d compression=%v -> err=%v (%.1fs)", tc.size, tc.compress, err, time.Since(t0).Seconds())
	}
	return nil
}

func main() {
	opt := gen.NodeOptions{}
	opt.Network.Cookie = "abc"
	opt.Log.Level = gen.LogLevelError
	a, _ := ergo.StartNode("a@localhost", opt)
	b, _ := ergo.StartNode("b@localhost", opt)
	got := make(chan int, 10)
	res := make(chan string, 10)
	rp, _ := b.Spawn(func() gen.ProcessBehavior { return &recv{} }, gen.ProcessOptions{}, got)
	sp, _ := a.Spawn(func() gen.ProcessBehavior { return &sender{} }, gen.ProcessOptions{}, res)
	a.Send(sp, rp)
	for i := 0; i < 4; i++ {
		fmt.Println(<-res, " | receiver handled payload of", <-got, "bytes")
	}
	os.Exit(0)
}
