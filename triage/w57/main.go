// Witness w57 (C04, C10): relations made while the requester is still in its ProcessInit callback.
// The process is not in the node's process table until ProcessInit returns; an exit signal or a
// down message for it that arrives meanwhile found no addressee and was dropped (F-BX).
//   a) Spawn with LinkChild from Init, the child terminates at once: the parent must get the exit signal
//   b) MonitorPID from Init is refused ('not allowed'): monitors cannot be affected
//   c) a supervisor whose child terminates while the supervisor is still in Init: it must be restarted
package main

import (
	"errors"
	"fmt"
	"os"
	"sync/atomic"
	"time"

	"ergo.services/ergo"
	"ergo.services/ergo/act"
	"ergo.services/ergo/gen"
)

var got = make(chan string, 16)

type shortLived struct{ act.Actor }

func factoryShort() gen.ProcessBehavior { return &shortLived{} }
func (s *shortLived) Init(args ...any) error {
	s.Send(s.PID(), "die")
	return nil
}
func (s *shortLived) HandleMessage(from gen.PID, message any) error {
	return errors.New("w57: boom")
}

type parentA struct{ act.Actor }

func factoryParentA() gen.ProcessBehavior { return &parentA{} }
func (p *parentA) Init(args ...any) error {
	p.SetTrapExit(true)
	if _, err := p.Spawn(factoryShort, gen.ProcessOptions{LinkChild: true}); err != nil {
		return err
	}
	time.Sleep(300 * time.Millisecond) // the child is gone before Init returns
	return nil
}
func (p *parentA) HandleMessage(from gen.PID, message any) error {
	if m, ok := message.(gen.MessageExitPID); ok {
		got <- fmt.Sprintf("a: exit %v", m.Reason)
	}
	return nil
}

type parentB struct{ act.Actor }

func factoryParentB() gen.ProcessBehavior { return &parentB{} }
func (p *parentB) Init(args ...any) error {
	pid, err := p.Spawn(factoryShort, gen.ProcessOptions{})
	if err != nil {
		return err
	}
	if err := p.MonitorPID(pid); err != nil {
		got <- "b: monitor refused: " + err.Error()
		return nil
	}
	time.Sleep(300 * time.Millisecond)
	return nil
}
func (p *parentB) HandleMessage(from gen.PID, message any) error {
	if m, ok := message.(gen.MessageDownPID); ok {
		got <- fmt.Sprintf("b: down %v", m.Reason)
	}
	return nil
}

var starts int32

type child struct{ act.Actor }

func factoryChild() gen.ProcessBehavior { return &child{} }
func (c *child) Init(args ...any) error {
	if atomic.AddInt32(&starts, 1) == 1 {
		c.Send(c.PID(), "die")
	}
	return nil
}
func (c *child) HandleMessage(from gen.PID, message any) error { return errors.New("w57: first start dies") }

type sup struct{ act.Supervisor }

func factorySup() gen.ProcessBehavior { return &sup{} }
func (s *sup) Init(args ...any) (act.SupervisorSpec, error) {
	go func() { time.Sleep(300 * time.Millisecond) }()
	return act.SupervisorSpec{
		Type:     act.SupervisorTypeOneForOne,
		Children: []act.SupervisorChildSpec{{Name: "c", Factory: factoryChild}},
		Restart:  act.SupervisorRestart{Strategy: act.SupervisorStrategyPermanent, Intensity: 5, Period: 5},
	}, nil
}

func main() {
	var options gen.NodeOptions
	options.Network.Mode = gen.NetworkModeDisabled
	options.Log.DefaultLogger.Disable = true
	node, err := ergo.StartNode("w57@localhost", options)
	if err != nil {
		panic(err)
	}
	fail := false
	expect := func(prefix string) {
		select {
		case s := <-got:
			fmt.Println(s)
			if len(s) < len(prefix) || s[:len(prefix)] != prefix {
				fail = true
			}
		case <-time.After(2 * time.Second):
			fmt.Println(prefix, "NOTHING in 2s: the notification was lost")
			fail = true
		}
	}
	if _, err := node.Spawn(factoryParentA, gen.ProcessOptions{}); err != nil {
		panic(err)
	}
	expect("a: exit")
	if _, err := node.Spawn(factoryParentB, gen.ProcessOptions{}); err != nil {
		panic(err)
	}
	expect("b: ")
	if _, err := node.Spawn(factorySup, gen.ProcessOptions{}); err != nil {
		panic(err)
	}
	time.Sleep(time.Second)
	fmt.Println("c: child started", atomic.LoadInt32(&starts), "time(s)")
	if atomic.LoadInt32(&starts) < 2 {
		fmt.Println("c: the supervisor never noticed that its child had terminated")
		fail = true
	}
	node.StopForce()
	if fail {
		fmt.Println("WITNESS")
		os.Exit(1)
	}
	fmt.Println("ok")
}
