// probe: remote MonitorPID racing with the termination of the remote target
package main

import (
	"fmt"
	"os"
	"time"

	"ergo.services/ergo"
	"ergo.services/ergo/act"
	"ergo.services/ergo/gen"
)

type target struct{ act.Actor }

func factoryTarget() gen.ProcessBehavior { return &target{} }
func (t *target) HandleMessage(from gen.PID, message any) error {
	return gen.TerminateReasonNormal
}

type try struct {
	target gen.PID
	res    chan error
}
type watcher struct {
	act.Actor
	downs chan gen.MessageDownPID
}

func factoryWatcher() gen.ProcessBehavior { return &watcher{} }
func (w *watcher) Init(args ...any) error {
	w.downs = args[0].(chan gen.MessageDownPID)
	return nil
}
func (w *watcher) HandleMessage(from gen.PID, message any) error {
	switch m := message.(type) {
	case try:
		w.Send(m.target, "die")
		m.res <- w.MonitorPID(m.target)
	case gen.MessageDownPID:
		w.downs <- m
	}
	return nil
}

func main() {
	options := gen.NodeOptions{}
	options.Network.Cookie = "probe"
	options.Log.DefaultLogger.Disable = true
	node1, err := ergo.StartNode("probeC04a@localhost", options)
	if err != nil {
		panic(err)
	}
	node2, err := ergo.StartNode("probeC04b@localhost", options)
	if err != nil {
		panic(err)
	}
	if _, err := node1.Network().GetNode(node2.Name()); err != nil {
		panic(err)
	}
	downs := make(chan gen.MessageDownPID, 16)
	w, err := node1.Spawn(factoryWatcher, gen.ProcessOptions{}, downs)
	if err != nil {
		panic(err)
	}
	ok, failed, lost := 0, 0, 0
	start := time.Now()
	for i := 0; i < 20000 && time.Since(start) < 40*time.Second; i++ {
		t, err := node2.Spawn(factoryTarget, gen.ProcessOptions{})
		if err != nil {
			panic(err)
		}
		res := make(chan error, 1)
		node1.Send(w, try{t, res})
		err = <-res
		if err != nil {
			failed++
			continue
		}
		select {
		case d := <-downs:
			if d.PID != t {
				fmt.Println("wrong down", d, t)
				os.Exit(1)
			}
			ok++
		case <-time.After(1 * time.Second):
			lost++
			if info, err := node1.ProcessInfo(w); err == nil {
				fmt.Printf("  watcher still holds the monitors on %v\n", info.MonitorsPID)
			}
			fmt.Printf("round %d: MonitorPID(%s) succeeded, target terminated, no down message in 1s\n", i, t)
			if lost >= 3 {
				fmt.Printf("ok=%d failed=%d lost=%d\n", ok, failed, lost)
				os.Exit(1)
			}
		}
	}
	fmt.Printf("ok=%d failed=%d lost=%d\n", ok, failed, lost)
}
