// Witness w25 (property C18): remote variant of w24. The only subscriber of a notifying event
// lives on another node; that node goes down. CleanupNode silently drops the relations whose
// consumer was on the lost node, the event's subscriber counter is not adjusted and the producer
// never gets MessageEventStop (and the next subscriber is not announced as the first one).
//
// run under: flock /tmp/ergo-test.lock (two nodes with networking)
package main

import (
	"fmt"
	"os"
	"time"

	"ergo.services/ergo"
	"ergo.services/ergo/act"
	"ergo.services/ergo/gen"
)

var notes = make(chan string, 16)

type producer struct{ act.Actor }

func (p *producer) HandleMessage(from gen.PID, message any) error {
	if message == "reg" {
		_, err := p.RegisterEvent("w25ev", gen.EventOptions{Notify: true})
		notes <- fmt.Sprintf("registered: %v", err)
		return nil
	}
	switch message.(type) {
	case gen.MessageEventStart:
		notes <- "start"
	case gen.MessageEventStop:
		notes <- "stop"
	}
	return nil
}

type sub struct{ act.Actor }

func (s *sub) HandleMessage(from gen.PID, message any) error {
	if ev, ok := message.(gen.Event); ok {
		_, err := s.LinkEvent(ev)
		notes <- fmt.Sprintf("linked: %v", err)
	}
	return nil
}
func (s *sub) HandleEvent(ev gen.MessageEvent) error { return nil }

func expect(want string, d time.Duration) bool {
	select {
	case got := <-notes:
		fmt.Println("  <-", got)
		return got == want
	case <-time.After(d):
		fmt.Println("  <- (nothing) expected:", want)
		return false
	}
}

func main() {
	o := gen.NodeOptions{}
	o.Network.Cookie = "w25"
	o.Log.DefaultLogger.Disable = true
	node1, err := ergo.StartNode("w25node1@localhost", o)
	if err != nil {
		panic(err)
	}
	defer node1.StopForce()
	node2, err := ergo.StartNode("w25node2@localhost", o)
	if err != nil {
		panic(err)
	}
	if _, err := node1.SpawnRegister("producer", func() gen.ProcessBehavior { return &producer{} }, gen.ProcessOptions{}); err != nil {
		panic(err)
	}
	spid, err := node2.Spawn(func() gen.ProcessBehavior { return &sub{} }, gen.ProcessOptions{})
	if err != nil {
		panic(err)
	}
	node1.Send(gen.Atom("producer"), "reg")
	ok := expect("registered: <nil>", 2*time.Second)
	fmt.Println("the process on node2 subscribes:")
	node2.Send(spid, gen.Event{Name: "w25ev", Node: node1.Name()})
	// the two arrive in either order
	got := map[string]bool{}
	for i := 0; i < 2; i++ {
		select {
		case n := <-notes:
			fmt.Println("  <-", n)
			got[n] = true
		case <-time.After(3 * time.Second):
		}
	}
	ok = ok && got["linked: <nil>"] && got["start"]
	if !ok {
		fmt.Println("unexpected sequence")
		os.Exit(2)
	}
	fmt.Println("node2 is stopped:")
	node2.StopForce()
	if !expect("stop", 6*time.Second) {
		fmt.Println("VIOLATION (C18): the last subscriber is gone with its node, the producer was not told")
		os.Exit(1)
	}
	fmt.Println("ok")
}
