// Witness w30 (property C17): "a failed start leaves no member running" and the application can be
// started again. Run 1 is started and stopped normally. In run 2 the second member fails to
// initialise: the rollback kills the first member, whose termination empties the group and closes
// the 'stopped' channel — still the (already closed) channel of run 1, because start() creates the
// new one only after all members were spawned: close of closed channel, ApplicationStart panics.
package main

import (
	"errors"
	"fmt"
	"os"
	"sync/atomic"
	"time"

	"ergo.services/ergo"
	"ergo.services/ergo/act"
	"ergo.services/ergo/gen"
)

var failSecond int32

type app struct{}

func (a *app) Load(node gen.Node, args ...any) (gen.ApplicationSpec, error) {
	return gen.ApplicationSpec{
		Name: "w30app",
		Mode: gen.ApplicationModeTemporary,
		Group: []gen.ApplicationMemberSpec{
			{Name: "w30first", Factory: func() gen.ProcessBehavior { return &first{} }},
			{Name: "w30second", Factory: func() gen.ProcessBehavior { return &second{} }},
		},
	}, nil
}
func (a *app) Start(mode gen.ApplicationMode) {}
func (a *app) Terminate(reason error)         {}

type first struct{ act.Actor }
type second struct{ act.Actor }

func (m *second) Init(args ...any) error {
	time.Sleep(100 * time.Millisecond) // the first member is idle by now
	if atomic.LoadInt32(&failSecond) == 1 {
		return errors.New("second member cannot start")
	}
	return nil
}

func main() {
	opt := gen.NodeOptions{}
	opt.Network.Mode = gen.NetworkModeDisabled
	opt.Log.DefaultLogger.Disable = true
	node, err := ergo.StartNode("w30@localhost", opt)
	if err != nil {
		panic(err)
	}
	defer node.StopForce()
	name, err := node.ApplicationLoad(&app{})
	if err != nil {
		panic(err)
	}
	if err := node.ApplicationStart(name, gen.ApplicationOptions{}); err != nil {
		panic(err)
	}
	time.Sleep(100 * time.Millisecond)
	if err := node.ApplicationStop(name); err != nil {
		panic(err)
	}
	fmt.Println("run 1 started and stopped")
	atomic.StoreInt32(&failSecond, 1)
	func() {
		defer func() {
			if r := recover(); r != nil {
				fmt.Println("WITNESS: ApplicationStart panicked:", r)
				os.Exit(1)
			}
		}()
		err = node.ApplicationStart(name, gen.ApplicationOptions{})
	}()
	fmt.Println("run 2 (second member fails): ApplicationStart returned:", err)
	time.Sleep(200 * time.Millisecond)
	info, _ := node.ApplicationInfo(name)
	fmt.Println("state:", info.State, "group:", info.Group)
	atomic.StoreInt32(&failSecond, 0)
	if err := node.ApplicationStart(name, gen.ApplicationOptions{}); err != nil {
		fmt.Println("WITNESS: the application cannot be started again:", err)
		os.Exit(1)
	}
	fmt.Println("run 3 started; quiet")
}
