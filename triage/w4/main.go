package main

import (
	"fmt"
	"os"
	"time"

	"ergo.services/ergo"
	"ergo.services/ergo/act"
	"ergo.services/ergo/gen"
)

type recv struct {
	act.Actor
	last   map[gen.PID]int
	misord map[gen.PID]int
	count  map[gen.PID]int
	done   chan map[gen.PID][2]int
}

func (r *recv) Init(args ...any) error {
	r.done = args[0].(chan map[gen.PID][2]int)
	r.last = map[gen.PID]int{}
	r.misord = map[gen.PID]int{}
	r.count = map[gen.PID]int{}
	return nil
}
func (r *recv) HandleMessage(from gen.PID, m any) error {
	switch x := m.(type) {
	case int:
		if x < r.last[from] {
			r.misord[from]++
		}
		r.last[from] = x
		r.count[from]++
	case string:
		out := map[gen.PID][2]int{}
		for k, v := range r.count {
			out[k] = [2]int{v, r.misord[k]}
		}
		r.done <- out
	}
	return nil
}

type sender struct{ act.Actor }

func (s *sender) HandleMessage(from gen.PID, m any) error {
	to := m.(gen.PID)
	for i := 1; i <= 20000; i++ {
		if err := s.Send(to, i); err != nil {
			fmt.Println("send err", err)
			break
		}
	}
	return nil
}

func main() {
	opt := gen.NodeOptions{}
	opt.Network.Cookie = "abc"
	opt.Log.Level = gen.LogLevelError
	a, _ := ergo.StartNode("a@localhost", opt)
	b, _ := ergo.StartNode("b@localhost", opt)
	done := make(chan map[gen.PID][2]int, 1)
	rp, _ := b.Spawn(func() gen.ProcessBehavior { return &recv{} }, gen.ProcessOptions{}, done)
	fmt.Println("receiver", rp, "id%255 =", rp.ID%255)
	var s0 gen.PID
	for {
		p, _ := a.Spawn(func() gen.ProcessBehavior { return &sender{} }, gen.ProcessOptions{})
		if p.ID%255 == 0 {
			s0 = p
			break
		}
	}
	fmt.Println("sender with id%255==0:", s0)
	if len(os.Args) > 1 && os.Args[1] == "warm" {
		// establish the connection first and let the pool of TCP links settle
		a.Send(rp, "warmup")
		time.Sleep(2 * time.Second)
		<-done
	}
	a.Send(s0, rp)
	time.Sleep(4 * time.Second)
	b.Send(rp, "report")
	res := <-done
	for k, v := range res {
		fmt.Printf("from %s (id%%255=%d): received=%d out-of-order=%d\n", k, k.ID%255, v[0], v[1])
	}
	os.Exit(0)
}
