// Witness w22 (property C17): the reason given to the application's Terminate callback is not
// reset between runs. Run 1 is stopped by ApplicationStop (reason: shutdown). Run 2 (mode
// Temporary) ends because its only member finishes normally: the callback must be told "normal",
// but it is told the reason of the previous run.
package main

import (
	"fmt"
	"os"
	"time"

	"ergo.services/ergo"
	"ergo.services/ergo/act"
	"ergo.services/ergo/gen"
)

var reasons = make(chan error, 4)

type app struct{}

func (a *app) Load(node gen.Node, args ...any) (gen.ApplicationSpec, error) {
	return gen.ApplicationSpec{
		Name:  "w22app",
		Mode:  gen.ApplicationModeTemporary,
		Group: []gen.ApplicationMemberSpec{{Name: "w22m", Factory: func() gen.ProcessBehavior { return &member{} }}},
	}, nil
}
func (a *app) Start(mode gen.ApplicationMode) {}
func (a *app) Terminate(reason error)         { reasons <- reason }

type member struct{ act.Actor }

func (m *member) HandleMessage(from gen.PID, message any) error {
	if message == "finish" {
		return gen.TerminateReasonNormal
	}
	return nil
}

func main() {
	opt := gen.NodeOptions{}
	opt.Network.Mode = gen.NetworkModeDisabled
	opt.Log.DefaultLogger.Disable = true
	node, err := ergo.StartNode("w22@localhost", opt)
	if err != nil {
		panic(err)
	}
	defer node.StopForce()
	name, err := node.ApplicationLoad(&app{})
	if err != nil {
		panic(err)
	}
	wait := func() error {
		select {
		case r := <-reasons:
			return r
		case <-time.After(5 * time.Second):
			fmt.Println("no Terminate callback within 5s")
			os.Exit(2)
		}
		return nil
	}
	// run 1: stopped from outside
	if err := node.ApplicationStart(name, gen.ApplicationOptions{}); err != nil {
		panic(err)
	}
	time.Sleep(200 * time.Millisecond)
	if err := node.ApplicationStop(name); err != nil {
		panic(err)
	}
	fmt.Println("run 1, stopped by ApplicationStop: Terminate(", wait(), ")")
	// run 2: the member finishes by itself
	if err := node.ApplicationStart(name, gen.ApplicationOptions{}); err != nil {
		panic(err)
	}
	time.Sleep(200 * time.Millisecond)
	if err := node.Send(gen.Atom("w22m"), "finish"); err != nil {
		panic(err)
	}
	r := wait()
	fmt.Println("run 2, last member finished normally: Terminate(", r, ")")
	if r != gen.TerminateReasonNormal {
		fmt.Println("VIOLATION (C17): the Terminate callback of run 2 was given the reason of run 1")
		os.Exit(1)
	}
	fmt.Println("ok")
}
