// witness w12 (C20): EnableJob on a job that is already spooled for the next minute pushes it a
// second time, so the job fires twice at that minute.
package main

import (
	"fmt"
	"os"
	"sync/atomic"
	"time"

	"ergo.services/ergo"
	"ergo.services/ergo/gen"
)

type act struct{ n *int32 }

func (a act) Do(job gen.Atom, node gen.Node, t time.Time) error {
	atomic.AddInt32(a.n, 1)
	fmt.Println("fired", job, t.Format("15:04:05"))
	return nil
}
func (a act) Info() string { return "w12" }

func main() {
	opt := gen.NodeOptions{}
	opt.Network.Mode = gen.NetworkModeDisabled
	opt.Log.DefaultLogger.Disable = true
	node, err := ergo.StartNode("w12@localhost", opt)
	if err != nil {
		panic(err)
	}
	var n int32
	job := gen.CronJob{Name: "every", Spec: "* * * * *", Action: act{&n}}
	if err := node.Cron().AddJob(job); err != nil {
		panic(err)
	}
	// the job is enabled and due at the next minute; enabling it "again" must be a no-op
	if err := node.Cron().EnableJob("every"); err != nil {
		panic(err)
	}
	// wait until just after the next minute boundary
	now := time.Now()
	next := now.Add(time.Minute).Truncate(time.Minute)
	time.Sleep(next.Sub(now) + 3*time.Second)
	got := atomic.LoadInt32(&n)
	fmt.Printf("job fired %d time(s) at its first due minute\n", got)
	node.StopForce()
	if got != 1 {
		fmt.Println("DEFECT: a job fired more than once for one matching minute")
		os.Exit(1)
	}
	fmt.Println("ok")
}
