// Witness w48 (property C20), written by the C20 seeding agent: EnableJob hammered around the minute tick re-queues the job for the minute
// that is just being fired: it fires again with the NEXT minute as action time (or twice). Takes up to ~2.5 min.

package main

import (
	"fmt"
	"os"
	"sync/atomic"
	"time"

	"ergo.services/ergo"
	"ergo.services/ergo/gen"
)

type recAction struct{ fired chan time.Time }

func (a recAction) Do(job gen.Atom, node gen.Node, atime time.Time) error {
	a.fired <- atime
	return nil
}
func (a recAction) Info() string { return "record" }

func main() {
	var options gen.NodeOptions
	options.Network.Mode = gen.NetworkModeDisabled
	options.Log.Level = gen.LogLevelDisabled
	node, err := ergo.StartNode("raceC20@localhost", options)
	if err != nil {
		panic(err)
	}
	cron := node.Cron()
	if s := time.Now().Second(); s >= 55 {
		time.Sleep(time.Duration(61-s) * time.Second)
	}
	next := cron.Info().Next
	spec := fmt.Sprintf("%d %d * * *", next.Minute(), next.Hour())
	action := recAction{fired: make(chan time.Time, 1024)}
	if err := cron.AddJob(gen.CronJob{Name: "once", Spec: spec, Action: action}); err != nil {
		panic(err)
	}
	fmt.Println("spec", spec, "next", next)
	time.Sleep(time.Until(next) - 2*time.Second)
	var stop atomic.Bool
	done := make(chan int)
	go func() {
		n := 0
		for stop.Load() == false {
			cron.EnableJob("once")
			n++
		}
		done <- n
	}()
	time.Sleep(4 * time.Second)
	stop.Store(true)
	fmt.Println("EnableJob calls:", <-done)
	// wait for the tick after
	time.Sleep(time.Until(next.Add(time.Minute)) + 2*time.Second)
	close(action.fired)
	n := 0
	for at := range action.fired {
		n++
		fmt.Println("fired, action time", at)
	}
	node.StopForce()
	if n != 1 {
		fmt.Println("VIOLATION: fired", n, "times")
		os.Exit(1)
	}
	fmt.Println("fired once")
}
