// Witness w34 (property C16), written by the C16 seeding agent: hostile handshake traffic against a live acceptor.
//   run.sh w34 preauth-alloc | preauth-hang | errcache-nil   (run in a private network namespace: unshare -n)

package main

import (
	"crypto/sha256"
	"encoding/binary"
	"fmt"
	"net"
	"os"
	"runtime"
	"time"

	"ergo.services/ergo"
	"ergo.services/ergo/gen"
	"ergo.services/ergo/lib"
	"ergo.services/ergo/net/edf"
	"ergo.services/ergo/net/handshake"
)

const cookie = "secret"

func startNode(name string, port uint16) gen.Node {
	opts := gen.NodeOptions{}
	opts.Network.Cookie = cookie
	opts.Log.Level = gen.LogLevelWarning
	opts.Network.Acceptors = []gen.AcceptorOptions{{Port: port}}
	n, err := ergo.StartNode(gen.Atom(name), opts)
	if err != nil {
		panic(err)
	}
	return n
}

func write(c net.Conn, m any) {
	buf := lib.TakeBuffer()
	buf.Allocate(6)
	buf.B[0] = 87
	buf.B[1] = 1
	if err := edf.Encode(m, buf, edf.Options{}); err != nil {
		panic(err)
	}
	binary.BigEndian.PutUint32(buf.B[2:6], uint32(buf.Len()-6))
	c.Write(buf.B)
}

func read(c net.Conn) any {
	var chunk []byte
	b := make([]byte, 65536)
	for {
		c.SetReadDeadline(time.Now().Add(2 * time.Second))
		n, err := c.Read(b)
		if err != nil {
			panic(err)
		}
		chunk = append(chunk, b[:n]...)
		if len(chunk) < 6 {
			continue
		}
		l := int(binary.BigEndian.Uint32(chunk[2:6]))
		if len(chunk) < 6+l {
			continue
		}
		v, _, err := edf.Decode(chunk[6:], edf.Options{})
		if err != nil {
			panic(err)
		}
		return v
	}
}

func sum(format string, a ...any) string {
	h := sha256.New()
	h.Write([]byte(fmt.Sprintf(format, a...)))
	return fmt.Sprintf("%x", h.Sum(nil))
}

func main() {
	a := startNode("a@localhost", 21001)
	acc, _ := a.Network().Acceptors()
	addr := acc[0].Info().Interface

	hsFrame := func(payload []byte) []byte {
		b := []byte{87, 1, 0, 0, 0, 0}
		binary.BigEndian.PutUint32(b[2:6], uint32(len(payload)))
		return append(b, payload...)
	}

	switch os.Args[1] {
	case "preauth-alloc":
		// unauthenticated: 16 bytes make the acceptor allocate 512 MB ([16M]gen.ProcessID)
		c, err := net.Dial("tcp", addr)
		if err != nil {
			panic(err)
		}
		var m0, m1 runtime.MemStats
		runtime.ReadMemStats(&m0)
		c.Write(hsFrame([]byte{0x82, 0, 6, 0x9e, 0x01, 0, 0, 0, 0xab, 0}))
		time.Sleep(2 * time.Second)
		runtime.ReadMemStats(&m1)
		fmt.Printf("allocated by a 16 byte unauthenticated handshake message: %d MB\n", (m1.TotalAlloc-m0.TotalAlloc)>>20)
	case "preauth-hang":
		// unauthenticated: 26 bytes keep the (only) accept loop busy for minutes ([64K][64K][0]int, 4G iterations;
		// with 0xffffffff for both sizes: forever)
		c, err := net.Dial("tcp", addr)
		if err != nil {
			panic(err)
		}
		c.Write(hsFrame([]byte{0x82, 0, 16, 0x9e, 0, 1, 0, 0, 0x9e, 0, 1, 0, 0, 0x9e, 0, 0, 0, 0, 0x96, 0}))
		time.Sleep(2 * time.Second)
		b := startNode("b@localhost", 21002)
		t0 := time.Now()
		_, err = b.Network().GetNode("a@localhost")
		fmt.Println("legitimate node connecting after the message:", err, time.Since(t0))
	case "errcache-nil":
		// authenticated (knows the cookie): nil error in MessageIntroduce.ErrCache, the accept loop panics, node dies
		c, err := net.Dial("tcp", addr)
		if err != nil {
			panic(err)
		}
		salt := "salt"
		hello := handshake.MessageHello{Salt: salt, Digest: sum("%s:%s", salt, cookie)}
		write(c, hello)
		hello2 := read(c).(handshake.MessageHello)
		intro := handshake.MessageIntroduce{
			Node:     "evil@localhost",
			Creation: 1,
			Flags:    gen.DefaultNetworkFlags,
			ErrCache: map[uint16]error{40000: nil},
			Digest:   sum("%s:%s", hello2.Salt, cookie),
		}
		write(c, intro)
		fmt.Printf("got %T\n", read(c))
		write(c, handshake.MessageAccept{})
		time.Sleep(time.Second)
		fmt.Println("node A still alive")
	}
}
