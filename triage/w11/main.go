// witness w11 (F-N array): a 9-byte EDF input whose folded type descriptor declares an array of
// 2^30 bytes makes edf.Decode allocate that array before it looks at the (missing) elements.
package main

import (
	"fmt"
	"os"
	"runtime"

	"ergo.services/ergo/net/edf"
)

func main() {
	// edtType(130) len=6 | edtArray(158) n=0x40000000 edtUint8(151)
	in := []byte{130, 0, 6, 158, 0x40, 0, 0, 0, 151}
	var m0, m1 runtime.MemStats
	runtime.ReadMemStats(&m0)
	_, _, err := edf.Decode(in, edf.Options{})
	runtime.ReadMemStats(&m1)
	grown := m1.TotalAlloc - m0.TotalAlloc
	fmt.Printf("input %d bytes, decode error: %v, bytes allocated during decode: %d\n", len(in), err, grown)
	if grown > 1<<29 {
		fmt.Println("DEFECT: allocation out of proportion to the input")
		os.Exit(1)
	}
	fmt.Println("ok")
}
