package main

import (
	"bytes"
	"fmt"
	"net"
	"os"
	"time"

	"ergo.services/ergo"
	"ergo.services/ergo/gen"
	"ergo.services/ergo/net/handshake"
)

type fakeNode struct{}

func (fakeNode) Name() gen.Atom       { return "peer@localhost" }
func (fakeNode) Creation() int64      { return 12345 }
func (fakeNode) Version() gen.Version { return gen.Version{} }

// recConn records everything written to it: this is the "eavesdropped transcript"
type recConn struct {
	net.Conn
	rec bytes.Buffer
}

func (r *recConn) Write(b []byte) (int, error) { r.rec.Write(b); return r.Conn.Write(b) }

func main() {
	optB := gen.NodeOptions{}
	optB.Log.Level = gen.LogLevelError
	optB.Network.Cookie = "SECRET"
	optB.Network.Acceptors = []gen.AcceptorOptions{{Port: 21003}}
	b, err := ergo.StartNode("b@localhost", optB)
	if err != nil {
		panic(err)
	}
	hs := handshake.Create(handshake.Options{})
	hopts := gen.HandshakeOptions{Cookie: "SECRET", Flags: gen.DefaultNetworkFlags}

	// 1. legitimate peer connects (knows the cookie)
	c1, _ := net.Dial("tcp", "localhost:21003")
	res, err := hs.Start(fakeNode{}, c1, hopts)
	fmt.Println("legit Start: err =", err, " connection id =", res.ConnectionID)
	time.Sleep(100 * time.Millisecond)

	// 2. legitimate peer adds a pooled link; an eavesdropper records the bytes of its Join message
	c2raw, _ := net.Dial("tcp", "localhost:21003")
	c2 := &recConn{Conn: c2raw}
	_, err = hs.Join(fakeNode{}, c2, res.ConnectionID, hopts)
	fmt.Println("legit Join: err =", err, " recorded", c2.rec.Len(), "bytes")
	transcript := append([]byte{}, c2.rec.Bytes()...)

	// 3. attacker WITHOUT the cookie replays the recorded bytes on a fresh TCP connection
	c3, _ := net.Dial("tcp", "localhost:21003")
	c3.Write(transcript)
	c3.SetReadDeadline(time.Now().Add(2 * time.Second))
	reply := make([]byte, 4096)
	n, rerr := c3.Read(reply)
	fmt.Printf("replayed Join: acceptor replied %d bytes (err=%v), magic=%d version=%d -> handshake accepted\n", n, rerr, reply[0], reply[1])

	// control: same bytes with one digest byte flipped are refused (connection closed, no reply)
	bad := append([]byte{}, transcript...)
	bad[len(bad)-1] ^= 1
	c4, _ := net.Dial("tcp", "localhost:21003")
	c4.Write(bad)
	c4.SetReadDeadline(time.Now().Add(2 * time.Second))
	n, rerr = c4.Read(reply)
	fmt.Printf("control (tampered digest): %d bytes, err=%v\n", n, rerr)

	// 4. is the attacker's socket now part of the connection? make b send to the peer and look for frames on c3
	rn, err := b.Network().Node("peer@localhost")
	fmt.Println("b sees peer:", rn != nil, err)
	for i := 0; i < 30; i++ {
		b.Send(gen.PID{Node: "peer@localhost", ID: uint64(2000 + i), Creation: 12345}, fmt.Sprintf("secret-%d", i))
	}
	c3.SetReadDeadline(time.Now().Add(2 * time.Second))
	total := 0
	for {
		n, rerr = c3.Read(reply)
		total += n
		if rerr != nil {
			break
		}
	}
	fmt.Printf("attacker's replayed link received %d bytes of node traffic\n", total)
	os.Exit(0)
}
