#!/bin/sh
# usage: triage/w62/run.sh [rev]   (default: /repo's HEAD) — runs the package-internal witness in a scratch worktree
set -e
rev="${1:-HEAD}"
d=$(mktemp -d /tmp/w62.XXXXXX)
trap 'git -C /repo worktree remove --force "$d/t" 2>/dev/null; rm -rf "$d"' EXIT
git -C /repo worktree add -q --detach "$d/t" "$rev"
cp "$(dirname "$0")/w62_test.go" "$d/t/node/zz_w62_test.go"
cd "$d/t" && GOFLAGS=-mod=mod GOPROXY=off GOSUMDB=off GOTOOLCHAIN=local GOWORK=off go test -vet=off -count=1 -v -run TestW62 ./node/
