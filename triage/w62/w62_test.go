package node

// Witness w62 (C15): EnableSpawn(name, factory, "trusted@host") entered the new entry into the table
// with an EMPTY node list — which means "any node may spawn this" — and filled the allowed nodes in
// afterwards. A spawn request of another node that looked the entry up in between was permitted.
// Package-internal: one goroutine enables (restricted to one node) and disables the name in a loop,
// the others ask whether "other@host" may spawn it. Any "yes" is a violation.

import (
	"sync"
	"sync/atomic"
	"testing"
	"time"

	"ergo.services/ergo/gen"
)

type w62proc struct{}

func (w *w62proc) ProcessInit(gen.Process, ...any) error { return nil }
func (w *w62proc) ProcessRun() error                      { return nil }
func (w *w62proc) ProcessTerminate(error)                 {}

func TestW62(t *testing.T) {
	n := &network{}
	factory := func() gen.ProcessBehavior { return &w62proc{} }
	var stop int32
	var granted int64
	var wg sync.WaitGroup
	for i := 0; i < 6; i++ {
		wg.Add(1)
		go func() {
			defer wg.Done()
			for atomic.LoadInt32(&stop) == 0 {
				if _, err := n.getEnabledSpawn("w62", "other@host"); err == nil {
					atomic.AddInt64(&granted, 1)
				}
			}
		}()
	}
	deadline := time.Now().Add(10 * time.Second)
	rounds := 0
	for time.Now().Before(deadline) && atomic.LoadInt64(&granted) == 0 {
		if err := n.EnableSpawn("w62", factory, "trusted@host"); err != nil {
			t.Fatal(err)
		}
		n.DisableSpawn("w62")
		rounds++
	}
	atomic.StoreInt32(&stop, 1)
	wg.Wait()
	t.Logf("%d enable/disable rounds, spawn permitted to a node that is not in the list: %d time(s)", rounds, granted)
	if granted > 0 {
		t.Fatalf("WITNESS: a node that was never allowed was permitted to spawn")
	}
}
