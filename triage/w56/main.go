// pre-existing check P1: application whose member is a pool; a worker is busy when the app is stopped
package main

import (
	"fmt"
	"sync"
	"time"

	"ergo.services/ergo"
	"ergo.services/ergo/act"
	"ergo.services/ergo/gen"
)

var (
	mtx     sync.Mutex
	workers []gen.PID
	busy    = make(chan struct{}, 1)
)

type msgBusy struct{}
type worker struct{ act.Actor }

func factoryWorker() gen.ProcessBehavior { return &worker{} }
func (w *worker) Init(args ...any) error {
	mtx.Lock()
	workers = append(workers, w.PID())
	mtx.Unlock()
	return nil
}
func (w *worker) HandleMessage(from gen.PID, message any) error {
	if _, ok := message.(msgBusy); ok {
		busy <- struct{}{}
		time.Sleep(1500 * time.Millisecond)
	}
	return nil
}

type pool struct{ act.Pool }

func factoryPool() gen.ProcessBehavior { return &pool{} }
func (p *pool) Init(args ...any) (act.PoolOptions, error) {
	return act.PoolOptions{PoolSize: 2, WorkerFactory: factoryWorker}, nil
}

type app struct{}

func (a *app) Load(node gen.Node, args ...any) (gen.ApplicationSpec, error) {
	return gen.ApplicationSpec{
		Name:  "pre_app",
		Group: []gen.ApplicationMemberSpec{{Name: "pre_pool", Factory: factoryPool}},
	}, nil
}
func (a *app) Start(mode gen.ApplicationMode) {}
func (a *app) Terminate(reason error)         {}

func main() {
	var options gen.NodeOptions
	options.Network.Mode = gen.NetworkModeDisabled
	options.Log.DefaultLogger.Disable = true
	node, err := ergo.StartNode("pre_p1@localhost", options)
	if err != nil {
		panic(err)
	}
	if _, err := node.ApplicationLoad(&app{}); err != nil {
		panic(err)
	}
	if err := node.ApplicationStart("pre_app", gen.ApplicationOptions{}); err != nil {
		panic(err)
	}
	node.Send(gen.Atom("pre_pool"), msgBusy{})
	<-busy
	t := time.Now()
	err = node.ApplicationStop("pre_app")
	fmt.Println("ApplicationStop:", err, "after", time.Since(t).Round(time.Millisecond))
	info, _ := node.ApplicationInfo("pre_app")
	fmt.Println("application state:", info.State)
	for _, pid := range workers {
		if pi, e := node.ProcessInfo(pid); e == nil {
			fmt.Println("  still alive:", pid, pi.State, "application:", pi.Application)
		}
	}
}
