package main

import (
	"fmt"
	"os"
	"runtime"
	"sync/atomic"
	"time"

	"ergo.services/ergo"
	"ergo.services/ergo/act"
	"ergo.services/ergo/gen"
)

const eventName = gen.Atom("numbers")

var stop atomic.Bool
var dup = make(chan string, 10)
var doneCh = make(chan struct{}, 100)
var cycles atomic.Int64

type producer struct {
	act.Actor
	token gen.Ref
	seq   int
}
type doRegister struct{ done chan error }
type doPublish struct{}

func (p *producer) HandleMessage(from gen.PID, message any) error {
	switch m := message.(type) {
	case doRegister:
		token, err := p.RegisterEvent(eventName, gen.EventOptions{Buffer: 8})
		p.token = token
		for i := 0; i < 8; i++ {
			p.seq++
			p.SendEvent(eventName, p.token, p.seq)
		}
		m.done <- err
	case doPublish:
		if stop.Load() {
			return nil
		}
		for i := 0; i < 64; i++ {
			p.seq++
			p.SendEvent(eventName, p.token, p.seq)
		}
		p.Send(p.PID(), doPublish{})
	}
	return nil
}

type consumer struct {
	act.Actor
	event gen.Event
	last  int
	first int
}
type doCycle struct{}

func (c *consumer) Init(args ...any) error {
	c.event = args[0].(gen.Event)
	c.Send(c.PID(), doCycle{})
	return nil
}
func (c *consumer) HandleMessage(from gen.PID, message any) error {
	list, err := c.MonitorEvent(c.event)
	if err != nil {
		panic(err)
	}
	c.first = list[0].Message.(int)
	c.last = list[len(list)-1].Message.(int)
	return nil
}
func (c *consumer) HandleEvent(ev gen.MessageEvent) error {
	v := ev.Message.(int)
	if v <= c.last {
		dup <- fmt.Sprintf("handed over buffered %d..%d and got %d in the mailbox as well", c.first, c.last, v)
	}
	cycles.Add(1)
	doneCh <- struct{}{}
	return gen.TerminateReasonNormal
}

func main() {
	runtime.GOMAXPROCS(4)
	opt := gen.NodeOptions{}
	opt.Log.DefaultLogger.Disable = true
	opt.Network.Mode = gen.NetworkModeDisabled
	node, err := ergo.StartNode("p7@localhost", opt)
	if err != nil {
		panic(err)
	}
	event := gen.Event{Name: eventName, Node: node.Name()}
	ppid, _ := node.Spawn(func() gen.ProcessBehavior { return &producer{} }, gen.ProcessOptions{})
	done := make(chan error, 1)
	node.Send(ppid, doRegister{done})
	<-done
	sp := func() {
		if _, err := node.Spawn(func() gen.ProcessBehavior { return &consumer{} }, gen.ProcessOptions{}, event); err != nil {
			panic(err)
		}
	}
	for i := 0; i < 3; i++ {
		sp()
	}
	node.Send(ppid, doPublish{})
	deadline := time.After(30 * time.Second)
	for {
		select {
		case <-doneCh:
			sp()
		case s := <-dup:
			fmt.Println("DUPLICATE:", s, "after", cycles.Load(), "subscriptions")
			os.Exit(1)
		case <-deadline:
			fmt.Println("no duplicates,", cycles.Load(), "subscriptions")
			os.Exit(0)
		}
	}
}
