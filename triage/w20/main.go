// Witness w20 (property C09): one-for-one supervisor, two Permanent children, Intensity 1.
// c1 is killed twice within the period: the second failure exceeds the intensity, the supervisor
// stops c2 and must terminate with act.ErrSupervisorRestartsExceeded. With another child still
// running at that moment it terminates with the child's own reason (here "kill") instead: the
// machine records the crash reason as its shutdown reason.
package main

import (
	"fmt"
	"os"
	"time"

	"ergo.services/ergo"
	"ergo.services/ergo/act"
	"ergo.services/ergo/gen"
)

type child struct{ act.Actor }

type sup struct{ act.Supervisor }

var termReason = make(chan error, 1)

func (s *sup) Init(args ...any) (act.SupervisorSpec, error) {
	var spec act.SupervisorSpec
	spec.Type = act.SupervisorTypeOneForOne
	if len(os.Args) > 1 && os.Args[1] == "arfo" {
		spec.Type = act.SupervisorTypeAllForOne
	}
	spec.Children = []act.SupervisorChildSpec{
		{Name: "c1", Factory: func() gen.ProcessBehavior { return &child{} }},
		{Name: "c2", Factory: func() gen.ProcessBehavior { return &child{} }},
	}
	spec.Restart.Strategy = act.SupervisorStrategyPermanent
	spec.Restart.Intensity = 1
	spec.Restart.Period = 5
	return spec, nil
}

func (s *sup) Terminate(reason error) { termReason <- reason }

func pidOf(node gen.Node, name gen.Atom) gen.PID {
	l, _ := node.ProcessList()
	for _, p := range l {
		if i, err := node.ProcessInfo(p); err == nil && i.Name == name {
			return p
		}
	}
	return gen.PID{}
}

func main() {
	opt := gen.NodeOptions{}
	opt.Network.Mode = gen.NetworkModeDisabled
	opt.Log.DefaultLogger.Disable = true
	node, err := ergo.StartNode("w20@localhost", opt)
	if err != nil {
		panic(err)
	}
	defer node.StopForce()
	if _, err := node.SpawnRegister("sup", func() gen.ProcessBehavior { return &sup{} }, gen.ProcessOptions{}); err != nil {
		panic(err)
	}
	time.Sleep(300 * time.Millisecond)
	node.Kill(pidOf(node, "c1"))
	time.Sleep(500 * time.Millisecond)
	node.Kill(pidOf(node, "c1")) // second failure within the period: exceeds Intensity 1
	select {
	case r := <-termReason:
		fmt.Println("supervisor terminated with:", r)
		if r != act.ErrSupervisorRestartsExceeded {
			fmt.Printf("VIOLATION (C09): expected %q\n", act.ErrSupervisorRestartsExceeded)
			os.Exit(1)
		}
		fmt.Println("ok")
	case <-time.After(5 * time.Second):
		fmt.Println("VIOLATION (C09): the supervisor did not give up")
		os.Exit(1)
	}
}
