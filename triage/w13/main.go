// Witness w13 (property C20): the "xL" day-of-week rule (last x-day of the month) is evaluated with
// duration arithmetic (t + 7*24h) instead of calendar arithmetic. When the clocks go forward during
// the following week, a job late in the evening of the next-to-last such weekday is reported (and
// fired) as if it were the last one.
//
// Spec "30 23 * * 7L" in Europe/Berlin: the last Sunday of March 2024 is March 31st. March 24th,
// 23:30 CET + 168h = April 1st, 00:30 CEST -> another month -> the job also runs on March 24th.
package main

import (
	"fmt"
	"os"
	"time"
	_ "time/tzdata"

	"ergo.services/ergo"
	"ergo.services/ergo/gen"
)

type nop struct{}

func (nop) Do(job gen.Atom, node gen.Node, atime time.Time) error { return nil }
func (nop) Info() string                                          { return "nop" }

func main() {
	var opts gen.NodeOptions
	opts.Network.Mode = gen.NetworkModeDisabled
	opts.Log.Level = gen.LogLevelDisabled
	node, err := ergo.StartNode("w13@localhost", opts)
	if err != nil {
		fmt.Println(err)
		os.Exit(2)
	}
	defer node.Stop()
	berlin, err := time.LoadLocation("Europe/Berlin")
	if err != nil {
		fmt.Println(err)
		os.Exit(2)
	}
	job := gen.CronJob{Name: "lastsunday", Spec: "30 23 * * 7L", Location: berlin, Action: nop{}}
	if err := node.Cron().AddJob(job); err != nil {
		fmt.Println("AddJob:", err)
		os.Exit(2)
	}
	since := time.Date(2024, 3, 1, 0, 0, 0, 0, berlin)
	runs, err := node.Cron().JobSchedule("lastsunday", since, 31*24*time.Hour)
	if err != nil {
		fmt.Println("JobSchedule:", err)
		os.Exit(2)
	}
	bad := false
	for _, t := range runs {
		l := t.In(berlin)
		fmt.Println("run:", l.Format("Mon 2006-01-02 15:04 MST"))
		// oracle: calendar arithmetic — a week later is in another month
		y, m, d := l.Date()
		if time.Date(y, m, d+7, 12, 0, 0, 0, time.UTC).Month() == m {
			fmt.Println("  ^ NOT the last Sunday of the month")
			bad = true
		}
	}
	if bad || len(runs) != 1 {
		fmt.Printf("VIOLATION (C20): %d run(s) in March 2024 for \"30 23 * * 7L\" (expected exactly one, on March 31st)\n", len(runs))
		os.Exit(1)
	}
	fmt.Println("ok")
}
