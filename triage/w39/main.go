// Witness w39 (property C18), written by the C18 seeding agent: a process that links AND monitors one event handles every publication twice.

package main

import (
	"fmt"
	"os"
	"time"

	"ergo.services/ergo"
	"ergo.services/ergo/act"
	"ergo.services/ergo/gen"
)

type fn func(p *worker) error

type worker struct {
	act.Actor
	events chan gen.MessageEvent
	downs  chan any
}

func (w *worker) Init(args ...any) error {
	w.events = args[0].(chan gen.MessageEvent)
	w.downs = args[1].(chan any)
	w.SetTrapExit(true)
	return nil
}

func (w *worker) HandleMessage(from gen.PID, message any) error {
	switch m := message.(type) {
	case fn:
		return m(w)
	default:
		w.downs <- message
	}
	return nil
}
func (w *worker) HandleEvent(ev gen.MessageEvent) error {
	w.events <- ev
	return nil
}

func spawn(node gen.Node) (gen.PID, chan gen.MessageEvent, chan any) {
	ev := make(chan gen.MessageEvent, 10000)
	d := make(chan any, 10000)
	pid, err := node.Spawn(func() gen.ProcessBehavior { return &worker{} }, gen.ProcessOptions{}, ev, d)
	if err != nil {
		panic(err)
	}
	return pid, ev, d
}

func do(node gen.Node, pid gen.PID, f func(w *worker) error) error {
	ch := make(chan error, 1)
	node.Send(pid, fn(func(w *worker) error { ch <- f(w); return nil }))
	select {
	case err := <-ch:
		return err
	case <-time.After(10 * time.Second):
		return fmt.Errorf("timeout")
	}
}

func main() {
	opt := gen.NodeOptions{}
	opt.Log.DefaultLogger.Disable = true
	node, err := ergo.StartNode("p1@localhost", opt)
	if err != nil {
		panic(err)
	}
	defer node.Stop()

	prod, _, _ := spawn(node)
	sub, evs, downs := spawn(node)
	var token gen.Ref
	do(node, prod, func(w *worker) error {
		token, err = w.RegisterEvent("ev", gen.EventOptions{})
		return err
	})
	ev := gen.Event{Name: "ev", Node: node.Name()}
	fmt.Println(do(node, sub, func(w *worker) error {
		if _, err := w.LinkEvent(ev); err != nil {
			return err
		}
		_, err := w.MonitorEvent(ev)
		return err
	}))
	do(node, prod, func(w *worker) error {
		return w.SendEvent("ev", token, 1)
	})
	time.Sleep(300 * time.Millisecond)
	fmt.Println("events received:", len(evs))
	do(node, prod, func(w *worker) error {
		return w.UnregisterEvent("ev")
	})
	time.Sleep(300 * time.Millisecond)
	fmt.Println("downs received:", len(downs))
	for len(downs) > 0 {
		fmt.Printf("%#v\n", <-downs)
	}
	os.Exit(0)
}
