// Repro of a PRE-EXISTING violation of C03 on the unchanged tree.
//
// meta.SendWithPriority (node/meta.go) calls (*process).SendWithPriority of the
// PARENT process, which temporarily overwrites the parent's p.priority field
// (save, send, restore - not atomic, no lock). A meta process runs in its own
// goroutines, concurrently with the parent actor. A plain Send the parent makes
// in that window picks the temporary priority up: messages the parent sends with
// one and the same (normal) priority to one receiver end up in different mailbox
// queues (Main / Urgent) of the receiver and overtake each other.
// (Two such interleaved save/restore pairs can also leave the parent with the
// wrong priority for good.)
//
// Here: the parent sends the numbers 0..N-1 with the plain Send to one local
// receiver; its meta process keeps sending with SendWithPriority(Max) to some
// other (sink) process at the same time.
//
// exit 0 - order kept, exit 1 - messages were reordered
package main

import (
	"fmt"
	"os"
	"sync/atomic"
	"time"

	"ergo.services/ergo"
	"ergo.services/ergo/act"
	"ergo.services/ergo/gen"
)

const total = 300000

type report struct {
	received int
	violated string
	prio     gen.MessagePriority
}

var (
	reportCh = make(chan report, 1)
	doneCh   = make(chan report, 1)
	stop     int32
)

// receiver

type receiver struct {
	act.Actor
	next     int
	violated string
}

func factoryReceiver() gen.ProcessBehavior { return &receiver{} }

func (r *receiver) HandleMessage(from gen.PID, message any) error {
	switch m := message.(type) {
	case string:
		reportCh <- report{received: r.next, violated: r.violated}
	case int:
		if m != r.next && r.violated == "" {
			r.violated = fmt.Sprintf("expected #%d, got #%d", r.next, m)
		}
		r.next++
		// a little bit of work, so there is a backlog in the mailbox
		for i := 0; i < 200; i++ {
			_ = i * i
		}
	}
	return nil
}

// sink

type sink struct {
	act.Actor
}

func factorySink() gen.ProcessBehavior { return &sink{} }

func (s *sink) HandleMessage(from gen.PID, message any) error { return nil }

// meta process of the sender

type ticker struct {
	gen.MetaProcess
	sink gen.PID
}

func (t *ticker) Init(process gen.MetaProcess) error {
	t.MetaProcess = process
	return nil
}
func (t *ticker) Start() error {
	for atomic.LoadInt32(&stop) == 0 {
		t.SendWithPriority(t.sink, "urgent", gen.MessagePriorityMax)
	}
	return nil
}
func (t *ticker) HandleMessage(from gen.PID, message any) error { return nil }
func (t *ticker) HandleCall(from gen.PID, ref gen.Ref, request any) (any, error) {
	return nil, nil
}
func (t *ticker) Terminate(reason error)                                       {}
func (t *ticker) HandleInspect(from gen.PID, item ...string) map[string]string { return nil }

// sender

type sender struct {
	act.Actor
}

func factorySender() gen.ProcessBehavior { return &sender{} }

type start struct {
	to   gen.PID
	sink gen.PID
}

func (s *sender) HandleMessage(from gen.PID, message any) error {
	st, ok := message.(start)
	if ok == false {
		return nil
	}
	if _, err := s.SpawnMeta(&ticker{sink: st.sink}, gen.MetaOptions{}); err != nil {
		doneCh <- report{violated: err.Error()}
		return nil
	}
	for i := 0; i < total; i++ {
		if err := s.Send(st.to, i); err != nil {
			doneCh <- report{violated: err.Error()}
			return nil
		}
	}
	atomic.StoreInt32(&stop, 1)
	time.Sleep(100 * time.Millisecond)
	prio := s.SendPriority()
	s.Send(st.to, "report")
	doneCh <- report{prio: prio}
	return nil
}

func main() {
	opt := gen.NodeOptions{}
	opt.Network.Mode = gen.NetworkModeDisabled
	opt.Log.DefaultLogger.Disable = true
	node, err := ergo.StartNode("seedC03pre@localhost", opt)
	if err != nil {
		fmt.Println("unable to start node:", err)
		os.Exit(2)
	}
	defer node.Stop()

	rpid, _ := node.Spawn(factoryReceiver, gen.ProcessOptions{})
	kpid, _ := node.Spawn(factorySink, gen.ProcessOptions{})
	spid, _ := node.Spawn(factorySender, gen.ProcessOptions{})
	node.Send(spid, start{to: rpid, sink: kpid})

	var d report
	select {
	case d = <-doneCh:
		if d.violated != "" {
			fmt.Println("sender failed:", d.violated)
			os.Exit(2)
		}
	case <-time.After(60 * time.Second):
		fmt.Println("sender timeout")
		os.Exit(2)
	}
	select {
	case rep := <-reportCh:
		if rep.violated != "" || rep.received != total {
			fmt.Printf("FAIL: per-sender order broken (plain Send, same priority): %s (handled %d of %d before the final message; sender priority afterwards: %s)\n",
				rep.violated, rep.received, total, d.prio)
			os.Exit(1)
		}
		fmt.Printf("PASS: %d messages in order (sender priority afterwards: %s)\n", rep.received, d.prio)
	case <-time.After(30 * time.Second):
		fmt.Println("no report")
		os.Exit(2)
	}
}
