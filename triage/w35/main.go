// Witness w35 (property C16), written by the C16 seeding agent: hostile EDF input.
//   run.sh w35 array1 | hang | any 8000000

package main

import (
	"bytes"
	"fmt"
	"os"
	"runtime"
	"time"

	"ergo.services/ergo/net/edf"
)

func mem() uint64 {
	var m runtime.MemStats
	runtime.ReadMemStats(&m)
	return m.TotalAlloc
}

func try(name string, b []byte) {
	m0 := mem()
	t0 := time.Now()
	v, _, err := edf.Decode(b, edf.Options{})
	s := fmt.Sprintf("%v", err)
	if len(s) > 80 {
		s = s[:80]
	}
	fmt.Printf("%s: in=%d bytes, alloc=%d MB, took %v, err=%s, type=%T\n", name, len(b), (mem()-m0)>>20, time.Since(t0), s, v)
}

func main() {
	switch os.Args[1] {
	case "array1":
		try("array 1M x ProcessID", []byte{0x82, 0, 6, 0x9e, 0x10, 0, 0, 0, 0xab, 0})
		try("array 256M x uint8", []byte{0x82, 0, 6, 0x9e, 0x10, 0, 0, 0, 0x97, 0})
	case "hang":
		// [64K][64K][0]int + 1 byte
		try("nested arrays", []byte{0x82, 0, 16, 0x9e, 0, 0, 0x40, 0, 0x9e, 0, 0, 0x40, 0, 0x9e, 0, 0, 0, 0, 0x96, 0})
	case "any":
		n := 1 << 20
		if len(os.Args) > 2 {
			fmt.Sscan(os.Args[2], &n)
		}
		try("any chain", bytes.Repeat([]byte{0x84}, n))
	}
}
