// Witness w59 (C18): registerEvent enters the event into the node's table BEFORE it assigns the
// registration token. A publication with the zero token that finds the entry in between passes the
// token check ("only holders of the registration token can publish").
// One process registers fresh events in a loop, another one publishes on the same names with the
// zero gen.Ref. Every accepted forged publication is counted. (Run with -race: W59RACE=1 makes
// run.sh unnecessary — `go run -race .` reports the write/read race on eventOwner.token.)
package main

import (
	"fmt"
	"os"
	"sync/atomic"
	"time"

	"ergo.services/ergo"
	"ergo.services/ergo/act"
	"ergo.services/ergo/gen"
)

var current atomic.Value // gen.Atom
var accepted int64
var stop int32

type registrar struct{ act.Actor }

func factoryRegistrar() gen.ProcessBehavior { return &registrar{} }
func (r *registrar) Init(args ...any) error   { r.Send(r.PID(), 0); return nil }
func (r *registrar) HandleMessage(from gen.PID, message any) error {
	i := message.(int)
	for k := 0; k < 200; k++ {
		name := gen.Atom(fmt.Sprintf("ev%d", i*200+k))
		current.Store(name)
		if _, err := r.RegisterEvent(name, gen.EventOptions{}); err != nil {
			panic(err)
		}
		r.UnregisterEvent(name)
	}
	if atomic.LoadInt32(&stop) == 0 {
		r.Send(r.PID(), i+1)
	}
	return nil
}

type forger struct{ act.Actor }

func factoryForger() gen.ProcessBehavior { return &forger{} }
func (f *forger) Init(args ...any) error   { f.Send(f.PID(), 0); return nil }
func (f *forger) HandleMessage(from gen.PID, message any) error {
	for k := 0; k < 20000; k++ {
		v := current.Load()
		if v == nil {
			continue
		}
		if err := f.SendEvent(v.(gen.Atom), gen.Ref{}, "forged"); err == nil {
			atomic.AddInt64(&accepted, 1)
		}
	}
	if atomic.LoadInt32(&stop) == 0 {
		f.Send(f.PID(), 0)
	}
	return nil
}

func main() {
	var options gen.NodeOptions
	options.Network.Mode = gen.NetworkModeDisabled
	options.Log.DefaultLogger.Disable = true
	node, err := ergo.StartNode("w59@localhost", options)
	if err != nil {
		panic(err)
	}
	node.Spawn(factoryRegistrar, gen.ProcessOptions{})
	for i := 0; i < 3; i++ {
		node.Spawn(factoryForger, gen.ProcessOptions{})
	}
	time.Sleep(15 * time.Second)
	atomic.StoreInt32(&stop, 1)
	time.Sleep(300 * time.Millisecond)
	n := atomic.LoadInt64(&accepted)
	fmt.Println("publications with the zero token accepted:", n)
	if n > 0 {
		fmt.Println("WITNESS")
		os.Exit(1)
	}
	fmt.Println("ok")
}
