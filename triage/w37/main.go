// Witness w37 (property C08/C10), written by the C08 seeding agent: behaviour of the supervisors on the unchanged tree.
//   run.sh w37 e1 .. e5  (e1: simple-one-for-one shutdown hangs after a DisableChild; e2: all/rest-for-one stuck in start mode;
//   e3: child dies while the supervisor is still initialising; e4: child dies before the LinkChild link exists; e5: DisableChild of a stopped child)

// Reproductions of behaviour on the UNCHANGED tree that already violates C08 (not seeded):
//   go build -o exp . && ./exp e1   SOFO: DisableChild leaves a stale pid in the wait set, a later shutdown of the supervisor hangs forever (prints "sup alive: true")
//   ./exp e2   all/rest-for-one: with the last spec disabled a restart leaves mode=1, EnableChild/StartChild/AddChild/DisableChild answer ErrSupervisorStrategyActive forever
//   ./exp e3   a child that terminates while the supervisor is still in ProcessInit (starting the next child) is never noticed (Permanent child stays down, still listed)
//   ./exp e4   a child that terminates right after the spawn, before Spawn() adds the LinkChild link, is never noticed (about 5% of 20000 starts)
//   ./exp e5   DisableChild on a child that is not running returns nil without disabling it: the next all-for-one restart starts it again
package main

import (
	"errors"
	"fmt"
	"os"
	"time"

	"ergo.services/ergo"
	"ergo.services/ergo/act"
	"ergo.services/ergo/gen"
)

type do struct {
	f    func(s *sup)
	done chan struct{}
}

type sup struct {
	act.Supervisor
}

func (s *sup) Init(args ...any) (act.SupervisorSpec, error) {
	return args[0].(act.SupervisorSpec), nil
}
func (s *sup) HandleMessage(from gen.PID, message any) error {
	if d, ok := message.(do); ok {
		d.f(s)
		close(d.done)
	}
	return nil
}
func (s *sup) Terminate(reason error) {
	fmt.Println("  sup terminated:", reason)
}

func factorySup() gen.ProcessBehavior { return &sup{} }

type child struct {
	act.Actor
}

type initArg struct {
	dieInInit bool
	sleep     time.Duration
}

func (c *child) Init(args ...any) error {
	for _, a := range args {
		if ia, ok := a.(initArg); ok {
			if ia.sleep > 0 {
				time.Sleep(ia.sleep)
			}
			if ia.dieInInit {
				c.Send(c.PID(), errors.New("die"))
			}
		}
	}
	return nil
}
func (c *child) HandleMessage(from gen.PID, message any) error {
	if e, ok := message.(error); ok {
		return e
	}
	return nil
}
func factoryChild() gen.ProcessBehavior { return &child{} }

func run(node gen.Node, pid gen.PID, f func(s *sup)) bool {
	d := do{f, make(chan struct{})}
	node.Send(pid, d)
	select {
	case <-d.done:
		return true
	case <-time.After(2 * time.Second):
		return false
	}
}

func children(node gen.Node, pid gen.PID) []act.SupervisorChild {
	var c []act.SupervisorChild
	run(node, pid, func(s *sup) { c = s.Children() })
	return c
}

func alive(node gen.Node, pid gen.PID) bool {
	_, err := node.ProcessInfo(pid)
	return err == nil
}

func main() {
	nopt := gen.NodeOptions{}
	nopt.Network.Mode = gen.NetworkModeDisabled
	nopt.Log.DefaultLogger.Disable = true
	node, err := ergo.StartNode("exp1@localhost", nopt)
	if err != nil {
		panic(err)
	}
	go func() { time.Sleep(60 * time.Second); fmt.Println("TIMEOUT"); os.Exit(2) }()
	defer os.Exit(0)

	switch os.Args[1] {
	case "e1": // SOFO stale wait
		spec := act.SupervisorSpec{Type: act.SupervisorTypeSimpleOneForOne,
			Children: []act.SupervisorChildSpec{{Name: "a", Factory: factoryChild}, {Name: "b", Factory: factoryChild}}}
		pid, err := node.Spawn(factorySup, gen.ProcessOptions{}, spec)
		fmt.Println(pid, err)
		run(node, pid, func(s *sup) {
			fmt.Println(s.StartChild("a"), s.StartChild("b"))
		})
		fmt.Println(children(node, pid))
		run(node, pid, func(s *sup) { fmt.Println("disable a", s.DisableChild("a")) })
		time.Sleep(200 * time.Millisecond)
		fmt.Println(children(node, pid))
		node.SendExit(pid, errors.New("stop it"))
		time.Sleep(500 * time.Millisecond)
		fmt.Println("sup alive:", alive(node, pid))
	case "e2": // ARFO mode stuck
		spec := act.SupervisorSpec{Type: act.SupervisorTypeAllForOne,
			Children: []act.SupervisorChildSpec{{Name: "a", Factory: factoryChild}, {Name: "b", Factory: factoryChild}, {Name: "c", Factory: factoryChild}}}
		pid, _ := node.Spawn(factorySup, gen.ProcessOptions{}, spec)
		run(node, pid, func(s *sup) { fmt.Println("disable c", s.DisableChild("c")) })
		time.Sleep(200 * time.Millisecond)
		c := children(node, pid)
		fmt.Println(c)
		node.Send(c[0].PID, errors.New("crash"))
		time.Sleep(300 * time.Millisecond)
		fmt.Println(children(node, pid))
		run(node, pid, func(s *sup) { fmt.Println("enable c", s.EnableChild("c")) })
		fmt.Println(children(node, pid))
	case "e3": // child dies during sup init
		spec := act.SupervisorSpec{Type: act.SupervisorTypeOneForOne,
			Restart: act.SupervisorRestart{Strategy: act.SupervisorStrategyPermanent},
			Children: []act.SupervisorChildSpec{
				{Name: "a", Factory: factoryChild, Args: []any{initArg{dieInInit: true}}},
				{Name: "b", Factory: factoryChild, Args: []any{initArg{sleep: 200 * time.Millisecond}}}}}
		pid, _ := node.Spawn(factorySup, gen.ProcessOptions{}, spec)
		time.Sleep(300 * time.Millisecond)
		c := children(node, pid)
		fmt.Println(c)
		for _, x := range c {
			fmt.Println(x.Spec, x.PID, alive(node, x.PID))
		}
	case "e5": // DisableChild on a stopped child
		spec := act.SupervisorSpec{Type: act.SupervisorTypeAllForOne,
			Children: []act.SupervisorChildSpec{{Name: "a", Factory: factoryChild}, {Name: "b", Factory: factoryChild}}}
		pid, _ := node.Spawn(factorySup, gen.ProcessOptions{}, spec)
		c := children(node, pid)
		node.Send(c[0].PID, gen.TerminateReasonNormal)
		time.Sleep(200 * time.Millisecond)
		run(node, pid, func(s *sup) { fmt.Println("disable a", s.DisableChild("a")) })
		fmt.Println(children(node, pid))
		node.Send(c[1].PID, errors.New("crash"))
		time.Sleep(300 * time.Millisecond)
		fmt.Println(children(node, pid))
	case "e4": // LinkChild race
		spec := act.SupervisorSpec{Type: act.SupervisorTypeSimpleOneForOne,
			Restart: act.SupervisorRestart{Strategy: act.SupervisorStrategyTemporary},
			Children: []act.SupervisorChildSpec{
				{Name: "a", Factory: factoryChild, Args: []any{initArg{dieInInit: true}}}}}
		pid, _ := node.Spawn(factorySup, gen.ProcessOptions{}, spec)
		for i := 0; i < 20000; i++ {
			run(node, pid, func(s *sup) { s.StartChild("a") })
		}
		time.Sleep(300 * time.Millisecond)
		c := children(node, pid)
		fmt.Println("children listed:", len(c))
		n := 0
		for _, x := range c {
			if !alive(node, x.PID) {
				n++
			}
		}
		fmt.Println("dead but listed:", n)
	}
}
