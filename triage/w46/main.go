// Witness w46 (property C10), after the C10 seeding agent's report: a child with a bounded mailbox is busy in a
// handler and has one Max-priority message queued, so its Urgent queue (limit 1) is full. Its parent terminates:
// the exit signal is refused by the full queue, RouteTerminatePID ignores the refusal — the child runs on as an orphan.
package main

import (
	"fmt"
	"os"
	"time"

	"ergo.services/ergo"
	"ergo.services/ergo/act"
	"ergo.services/ergo/gen"
)

type parent struct {
	act.Actor
	child chan gen.PID
}

func (p *parent) Init(args ...any) error {
	p.child = args[0].(chan gen.PID)
	pid, err := p.Spawn(func() gen.ProcessBehavior { return &child{} }, gen.ProcessOptions{MailboxSize: 1, LinkParent: true}, args[1])
	if err != nil {
		return err
	}
	p.child <- pid
	return nil
}
func (p *parent) HandleMessage(from gen.PID, message any) error { return gen.TerminateReasonNormal }

type child struct {
	act.Actor
	release chan struct{}
}

func (c *child) Init(args ...any) error { c.release = args[0].(chan struct{}); return nil }
func (c *child) HandleMessage(from gen.PID, message any) error {
	if message == "block" {
		<-c.release
	}
	return nil
}

func main() {
	opt := gen.NodeOptions{}
	opt.Network.Mode = gen.NetworkModeDisabled
	opt.Log.Level = gen.LogLevelDisabled
	n, _ := ergo.StartNode("w46@localhost", opt)
	defer n.StopForce()
	ch := make(chan gen.PID, 1)
	release := make(chan struct{})
	ppid, err := n.Spawn(func() gen.ProcessBehavior { return &parent{} }, gen.ProcessOptions{}, ch, release)
	if err != nil {
		panic(err)
	}
	cpid := <-ch
	n.Send(cpid, "block") // the child is busy now
	time.Sleep(100 * time.Millisecond)
	// one Max-priority message fills the Urgent queue (limit 1)
	if err := n.SendWithPriority(cpid, "urgent", gen.MessagePriorityMax); err != nil {
		fmt.Println("urgent send:", err)
	}
	n.Send(ppid, "terminate") // the parent terminates: exit signal for the linked child
	time.Sleep(300 * time.Millisecond)
	_, e := n.ProcessInfo(ppid)
	fmt.Println("parent:", e)
	close(release) // the child finishes its handler and goes on with its mailbox
	time.Sleep(1 * time.Second)
	info, e := n.ProcessInfo(cpid)
	if e == nil {
		fmt.Println("WITNESS: the child is still running after its parent terminated (state", info.State, "): the exit signal was dropped")
		os.Exit(1)
	}
	fmt.Println("child:", e, "- quiet")
}
