package handshake

// Witness w36 (property C16), package-internal test (copied into net/handshake of a scratch
// worktree by run.sh): a hostile acceptor that knows the cookie answers the dialer with pool size 0.
// The dialer takes the value as it is: proto.NewConnection then creates PoolSize*4 = 0 receive
// queues and the goroutine that serves the link computes `recvN % 0` on the first frame — an integer
// divide by zero in a goroutine without recover: the dialing node dies.

import (
	"net"
	"testing"

	"ergo.services/ergo/gen"
)

type w36node struct{ name gen.Atom }

func (n w36node) Name() gen.Atom       { return n.name }
func (n w36node) Creation() int64      { return 1 }
func (n w36node) Version() gen.Version { return gen.Version{Name: "w36"} }

func TestW36PoolSize(t *testing.T) {
	for _, size := range []int{0, -3, 1 << 30} {
		a, b := net.Pipe()
		opts := gen.HandshakeOptions{Cookie: "secret"}
		go func() {
			evil := &handshake{poolsize: size}
			evil.Accept(w36node{"evil@localhost"}, a, opts)
			a.Close()
		}()
		good := Create(Options{}).(*handshake)
		res, err := good.Start(w36node{"good@localhost"}, b, opts)
		b.Close()
		if err == nil {
			co := res.Custom.(ConnectionOptions)
			t.Errorf("WITNESS: the dialer accepted pool size %d from the acceptor (it becomes %d receive queues and the divisor in the serving goroutine)", co.PoolSize, co.PoolSize*4)
		} else {
			t.Logf("pool size %d refused: %v", size, err)
		}
	}
}
