// Witness w17 (properties C17, C10): ApplicationStopForce on an application whose members are idle
// never returns. application.stop kills the members from inside group.Range (read lock held);
// Kill of a sleeping process finalises it in the caller's goroutine: unregisterProcess ->
// application.terminate -> group.LoadAndDelete, which needs the write lock of the same map.
// The same happens in the rollback of a failed start.
package main

import (
	"fmt"
	"os"
	"time"

	"ergo.services/ergo"
	"ergo.services/ergo/act"
	"ergo.services/ergo/gen"
)

type app struct{}

func (a *app) Load(node gen.Node, args ...any) (gen.ApplicationSpec, error) {
	return gen.ApplicationSpec{
		Name: "w17app",
		Group: []gen.ApplicationMemberSpec{
			{Name: "w17m1", Factory: func() gen.ProcessBehavior { return &member{} }},
			{Name: "w17m2", Factory: func() gen.ProcessBehavior { return &member{} }},
		},
	}, nil
}
func (a *app) Start(mode gen.ApplicationMode) {}
func (a *app) Terminate(reason error) {
	fmt.Println("Terminate callback:", reason)
	lastReason = reason
}

var lastReason error

type member struct{ act.Actor }

func main() {
	opt := gen.NodeOptions{}
	opt.Network.Mode = gen.NetworkModeDisabled
	opt.Log.DefaultLogger.Disable = true
	node, err := ergo.StartNode("w17@localhost", opt)
	if err != nil {
		panic(err)
	}
	name, err := node.ApplicationLoad(&app{})
	if err != nil {
		panic(err)
	}
	if err := node.ApplicationStart(name, gen.ApplicationOptions{}); err != nil {
		panic(err)
	}
	time.Sleep(300 * time.Millisecond) // members are idle (sleeping) now
	done := make(chan error, 1)
	go func() { done <- node.ApplicationStopForce(name) }()
	select {
	case err := <-done:
		info, _ := node.ApplicationInfo(name)
		fmt.Println("ApplicationStopForce returned:", err, "state:", info.State)
		if err != nil {
			os.Exit(1)
		}
		if lastReason != gen.TerminateReasonKill {
			fmt.Println("VIOLATION (C17): the application was stopped by force but its Terminate callback was told:", lastReason)
			os.Exit(1)
		}
		fmt.Println("ok")
	case <-time.After(5 * time.Second):
		fmt.Println("VIOLATION (C17/C10): ApplicationStopForce did not return within 5s (self-deadlock on the member group)")
		os.Exit(1)
	}
}
