// Witness w21 (properties C06/C08): a process's exit reaches its linked processes (its supervisor)
// before its registered name is released: unregisterProcess calls RouteTerminatePID first and
// deletes the name afterwards. A supervisor that reacts quickly restarts the child under the same
// name while the name is still taken: SpawnRegister fails with "resource is taken", handleAction
// returns the error and the supervisor itself terminates.
//
// The window is a few instructions wide; the witness restarts the child until it is hit.
package main

import (
	"fmt"
	"os"
	"time"

	"ergo.services/ergo"
	"ergo.services/ergo/act"
	"ergo.services/ergo/gen"
)

type child struct{ act.Actor }

type sup struct{ act.Supervisor }

var termReason = make(chan error, 1)

func (s *sup) Init(args ...any) (act.SupervisorSpec, error) {
	var spec act.SupervisorSpec
	spec.Type = act.SupervisorTypeOneForOne
	spec.Children = []act.SupervisorChildSpec{{Name: "c1", Factory: func() gen.ProcessBehavior { return &child{} }}}
	spec.Restart.Strategy = act.SupervisorStrategyPermanent
	spec.Restart.Intensity = 60000
	spec.Restart.Period = 1
	return spec, nil
}

func (s *sup) Terminate(reason error) { termReason <- reason }

func main() {
	opt := gen.NodeOptions{}
	opt.Network.Mode = gen.NetworkModeDisabled
	opt.Log.DefaultLogger.Disable = true
	node, err := ergo.StartNode("w21@localhost", opt)
	if err != nil {
		panic(err)
	}
	defer node.StopForce()
	if _, err := node.SpawnRegister("sup", func() gen.ProcessBehavior { return &sup{} }, gen.ProcessOptions{}); err != nil {
		panic(err)
	}
	time.Sleep(200 * time.Millisecond)
	find := func() gen.PID {
		l, _ := node.ProcessList()
		for _, p := range l {
			if i, err := node.ProcessInfo(p); err == nil && i.Name == "c1" {
				return p
			}
		}
		return gen.PID{}
	}
	last := gen.PID{}
	deadline := time.Now().Add(60 * time.Second)
	for n := 1; time.Now().Before(deadline); n++ {
		select {
		case r := <-termReason:
			fmt.Printf("after %d restarts the supervisor terminated with: %v\n", n, r)
			fmt.Println("VIOLATION (C06/C08): the restart found the name of the terminated child still registered")
			os.Exit(1)
		default:
		}
		p := find()
		if p == (gen.PID{}) || p == last {
			time.Sleep(200 * time.Microsecond)
			continue
		}
		last = p
		node.Kill(p)
	}
	fmt.Println("ok (window not hit in 60s)")
}
