package main

import (
	"fmt"
	"io"
	"reflect"
	"strings"
	"sync"

	"ergo.services/ergo/gen"
	"ergo.services/ergo/lib"
	"ergo.services/ergo/net/edf"
)

type BigMem struct {
	Data [1024]byte
}

func (b BigMem) MarshalEDF(w io.Writer) error {
	_, err := w.Write([]byte{b.Data[0]})
	return err
}
func (b *BigMem) UnmarshalEDF(data []byte) error {
	b.Data[0] = data[0]
	return nil
}

type Empty struct{}
type NamedSlice []int
type NamedMap map[string]int

func rt(name string, v any, eo, do edf.Options) {
	b := lib.TakeBuffer()
	defer lib.ReleaseBuffer(b)
	if err := edf.Encode(v, b, eo); err != nil {
		fmt.Printf("%s: encode rejected: %v\n", name, err)
		return
	}
	out, rest, err := edf.Decode(b.B, do)
	if err != nil {
		fmt.Printf("%s: DECODE FAILED: %v\n", name, err)
		return
	}
	if len(rest) != 0 {
		fmt.Printf("%s: REST %d\n", name, len(rest))
	}
	if !reflect.DeepEqual(v, out) {
		s1 := fmt.Sprintf("%#v", v)
		s2 := fmt.Sprintf("%#v", out)
		if len(s1) > 80 { s1 = s1[:80] }
		if len(s2) > 80 { s2 = s2[:80] }
		fmt.Printf("%s: MISMATCH %s (%T) vs %s (%T)\n", name, s1, v, s2, out)
		return
	}
	fmt.Printf("%s: ok\n", name)
}

func main() {
	if err := edf.RegisterTypeOf(BigMem{}); err != nil {
		panic(err)
	}
	if err := edf.RegisterTypeOf(Empty{}); err != nil {
		panic(err)
	}
	no := edf.Options{}
	rt("bigmem single", BigMem{}, no, no)
	rt("bigmem slice", []BigMem{{}}, no, no)
	rt("bigmem array", [2]BigMem{}, no, no)
	rt("bigmem in any slice", []any{BigMem{}}, no, no)
	rt("bigmem map value", map[int]BigMem{1: {}}, no, no)
	rt("namedSlice", NamedSlice{1, 2}, no, no)
	rt("namedMap", NamedMap{"a": 1}, no, no)
	rt("map[Empty]Empty", map[Empty]Empty{{}: {}}, no, no)
	rt("map[Empty]int", map[Empty]int{{}: 1}, no, no)

	var deep any = 1
	for i := 0; i < 10001; i++ {
		deep = []any{deep}
	}
	rt("deep 10001", deep, no, no)

	long := gen.Atom(strings.Repeat("x", 300))
	em := new(sync.Map)
	em.Store(gen.Atom("short"), long)
	dm := new(sync.Map)
	dm.Store(long, gen.Atom("short"))
	rt("atom mapped to 300 bytes", gen.PID{Node: "short", ID: 1, Creation: 1}, edf.Options{AtomMapping: em}, edf.Options{AtomMapping: dm})
	rt("wrapped err", []error{fmt.Errorf("x: %w", gen.ErrTimeout)}, no, no)
}
