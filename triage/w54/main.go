// pre-existing check P4: a process keeps spawning (unlinked) children while node.Stop() runs
package main

import (
	"fmt"
	"os"
	"time"

	"ergo.services/ergo"
	"ergo.services/ergo/act"
	"ergo.services/ergo/gen"
)

type tick struct{}
type leaf struct{ act.Actor }

func factoryLeaf() gen.ProcessBehavior { return &leaf{} }

type spawner struct{ act.Actor }

func factorySpawner() gen.ProcessBehavior { return &spawner{} }
func (s *spawner) Init(args ...any) error { s.Send(s.PID(), tick{}); return nil }
func (s *spawner) HandleMessage(from gen.PID, message any) error {
	for i := 0; i < 50; i++ {
		s.Spawn(factoryLeaf, gen.ProcessOptions{})
	}
	s.Send(s.PID(), tick{})
	return nil
}

func main() {
	for round := 0; round < 20; round++ {
		var options gen.NodeOptions
		options.Network.Mode = gen.NetworkModeDisabled
		options.Log.DefaultLogger.Disable = true
		node, err := ergo.StartNode("pre_p4@localhost", options)
		if err != nil {
			panic(err)
		}
		for i := 0; i < 4; i++ {
			node.Spawn(factorySpawner, gen.ProcessOptions{})
		}
		time.Sleep(20 * time.Millisecond)
		done := make(chan struct{})
		go func() { node.Stop(); close(done) }()
		select {
		case <-done:
		case <-time.After(5 * time.Second):
			list, _ := node.ProcessList()
			fmt.Println("round", round, ": node.Stop() still not returned after 5s; processes left:", len(list))
			for i, pid := range list {
				if i > 5 {
					break
				}
				pi, _ := node.ProcessInfo(pid)
				fmt.Println("   ", pid, pi.Behavior, pi.State, "parent", pi.Parent)
			}
			os.Exit(1)
		}
	}
	fmt.Println("ok: 20 rounds")
}
