package main

import (
	"fmt"
	"os"
	"time"

	"ergo.services/ergo"
	"ergo.services/ergo/act"
	"ergo.services/ergo/gen"
)

var got = make(chan string, 100)
var release = make(chan struct{})

type w struct{ act.Actor }

func (x *w) HandleMessage(from gen.PID, message any) error {
	switch m := message.(type) {
	case string:
		if m == "block" {
			got <- string(x.Name()) + ":blocked"
			<-release
			return nil
		}
		if m == "sched" {
			_, err := x.SendAfter("sink", "delayed-by-string", 100*time.Millisecond)
			got <- fmt.Sprintf("SendAfter(string) err=%v", err)
			err = x.Send("sink", "direct-by-string")
			got <- fmt.Sprintf("Send(string) err=%v", err)
			return nil
		}
	}
	got <- fmt.Sprintf("%s:%v", x.Name(), message)
	return nil
}

func main() {
	var options gen.NodeOptions
	options.Network.Mode = gen.NetworkModeDisabled
	options.Log.Level = gen.LogLevelError
	node, err := ergo.StartNode("scratch2@localhost", options)
	if err != nil {
		panic(err)
	}
	f := func() gen.ProcessBehavior { return &w{} }
	node.SpawnRegister("sink", f, gen.ProcessOptions{})
	node.SpawnRegister("s", f, gen.ProcessOptions{})
	node.Send(gen.Atom("s"), "sched")
	t := time.After(time.Second)
loop:
	for {
		select {
		case s := <-got:
			fmt.Println(s)
		case <-t:
			break loop
		}
	}
	if len(os.Args) > 1 {
		// mutual fallback
		node.SpawnRegister("a", f, gen.ProcessOptions{MailboxSize: 1, Fallback: gen.ProcessFallback{Enable: true, Name: "b", Tag: "a"}})
		node.SpawnRegister("b", f, gen.ProcessOptions{MailboxSize: 1, Fallback: gen.ProcessFallback{Enable: true, Name: "a", Tag: "b"}})
		node.Send(gen.Atom("a"), "block")
		node.Send(gen.Atom("b"), "block")
		fmt.Println(<-got, <-got)
		fmt.Println(node.Send(gen.Atom("a"), "fill"), node.Send(gen.Atom("b"), "fill"))
		fmt.Println("sending to a ...")
		fmt.Println(node.Send(gen.Atom("a"), "x"))
	}
}
