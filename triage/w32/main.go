// Witness w32 (property C11): a registered type with a custom MarshalEDF whose output makes the
// buffer grow. The encoder keeps the 4-byte window for the length prefix (b.Extend(4)) across the
// call of MarshalEDF; when the buffer is reallocated in between, the length is written into the
// abandoned array and the packet carries zero bytes there: the value encodes but does not decode.
package main

import (
	"bytes"
	"fmt"
	"io"
	"os"

	"ergo.services/ergo/lib"
	"ergo.services/ergo/net/edf"
)

type Big struct{ Data []byte }

func (b Big) MarshalEDF(w io.Writer) error { _, err := w.Write(b.Data); return err }
func (b *Big) UnmarshalEDF(data []byte) error {
	b.Data = append([]byte(nil), data...)
	return nil
}

func main() {
	if err := edf.RegisterTypeOf(Big{}); err != nil {
		panic(err)
	}
	bad := 0
	for _, n := range []int{100, 4000, 5000, 20000, 70000} {
		v := Big{Data: bytes.Repeat([]byte{0xAB}, n)}
		b := lib.TakeBuffer()
		if err := edf.Encode(v, b, edf.Options{}); err != nil {
			fmt.Println(n, "encode:", err)
			bad++
			continue
		}
		out, tail, err := edf.Decode(b.B, edf.Options{})
		got, ok := out.(Big)
		switch {
		case err != nil:
			fmt.Printf("size %d: encoded to %d bytes, decode failed: %v\n", n, b.Len(), err)
			bad++
		case !ok || !bytes.Equal(got.Data, v.Data) || len(tail) != 0:
			fmt.Printf("size %d: encoded to %d bytes, decoded %d bytes with %d bytes left over\n", n, b.Len(), len(got.Data), len(tail))
			bad++
		default:
			fmt.Printf("size %d: ok\n", n)
		}
		lib.ReleaseBuffer(b)
	}
	if bad > 0 {
		fmt.Println("WITNESS: a value the encoder accepted does not decode to an equal value")
		os.Exit(1)
	}
	fmt.Println("quiet")
}
