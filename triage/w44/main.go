// Witness w44 (properties C03/C13), written by the C13 seeding agent (the C03 agent has an equivalent one): one process sends to another
// by registered name and then by pid: the two frames select different receive queues on the peer and arrive reversed. Private network namespace.

// Behaviour of the UNCHANGED tree (not a seeded change): a process sends a
// bulky message to a remote process by its registered name and then a tiny one
// to the same process by pid. The name-addressed frame is put into the receive
// queue chosen by the sender's id, the pid-addressed one into the queue chosen
// by the receiver's id: two goroutines decode them, the tiny one wins.
// exit 1 = order violated.
package main

import (
	"fmt"
	"os"
	"sync"
	"time"

	"ergo.services/ergo"
	"ergo.services/ergo/act"
	"ergo.services/ergo/gen"
)

const (
	rounds    = 60
	bulkySize = 200000
)

var (
	mu       sync.Mutex
	overtook []int // rounds where the tiny message was delivered first
	lost     []int
	done     = make(chan struct{})
)

//
// receiver
//

type receiver struct {
	act.Actor
	bulky map[int]bool
}

func factoryReceiver() gen.ProcessBehavior {
	return &receiver{bulky: make(map[int]bool)}
}

func (r *receiver) HandleMessage(from gen.PID, message any) error {
	switch m := message.(type) {
	case []int:
		// bulky message, the first element is the round
		r.bulky[m[0]] = true
	case int:
		// tiny message of the round m
		if r.bulky[m] == false {
			mu.Lock()
			overtook = append(overtook, m)
			mu.Unlock()
		}
	}
	return nil
}

//
// sender
//

type sender struct {
	act.Actor
}

type doWarmup struct{ To gen.PID }
type doRounds struct{ To gen.PID }

func factorySender() gen.ProcessBehavior {
	return &sender{}
}

func (s *sender) HandleMessage(from gen.PID, message any) error {
	switch m := message.(type) {
	case doWarmup:
		s.Send(m.To, "warmup")

	case doRounds:
		if s.KeepNetworkOrder() == false {
			fmt.Println("network order keeping must be enabled by default")
			os.Exit(2)
		}
		bulky := make([]int, bulkySize)
		for i := range bulky {
			bulky[i] = i * 1000003
		}
		for round := 1; round <= rounds; round++ {
			bulky[0] = round
			if err := s.Send(gen.ProcessID{Name: "recv", Node: m.To.Node}, bulky); err != nil {
				fmt.Println("send failed:", err)
				os.Exit(2)
			}
			if err := s.Send(m.To, round); err != nil {
				mu.Lock()
				lost = append(lost, round)
				mu.Unlock()
			}
		}
		time.Sleep(time.Second)
		close(done)
	}
	return nil
}

func main() {
	options := gen.NodeOptions{}
	options.Network.Cookie = "c13m"
	options.Log.DefaultLogger.Disable = true

	node1, err := ergo.StartNode("c13m-node1@localhost", options)
	if err != nil {
		panic(err)
	}
	defer node1.Stop()
	node2, err := ergo.StartNode("c13m-node2@localhost", options)
	if err != nil {
		panic(err)
	}
	defer node2.Stop()

	rpid, err := node2.SpawnRegister("recv", factoryReceiver, gen.ProcessOptions{})
	if err != nil {
		panic(err)
	}
	for i := 0; i < 5; i++ {
		node1.Spawn(factorySender, gen.ProcessOptions{})
	}
	spid, err := node1.Spawn(factorySender, gen.ProcessOptions{})
	if err != nil {
		panic(err)
	}

	// establish the connection and let the pool get complete on both sides:
	// the demonstration is about a settled connection.
	node1.Send(spid, doWarmup{To: rpid})
	time.Sleep(2 * time.Second)
	if rn, err := node1.Network().Node(node2.Name()); err != nil {
		fmt.Println("no connection:", err)
		os.Exit(2)
	} else {
		fmt.Println(spid, rpid)
		fmt.Printf("connection with %s established, pool size %d\n", rn.Name(), rn.Info().PoolSize)
	}

	node1.Send(spid, doRounds{To: rpid})
	select {
	case <-done:
	case <-time.After(50 * time.Second):
		fmt.Println("FAIL: timeout")
		os.Exit(1)
	}
	// the last bulky message may be still on its way, it does not matter

	mu.Lock()
	defer mu.Unlock()
	if len(lost) > 0 {
		fmt.Printf("FAIL: SendImportant failed in rounds %v\n", lost)
		os.Exit(1)
	}
	if len(overtook) > 0 {
		fmt.Printf("FAIL: in %d of %d rounds the message sent second (Send by pid) was delivered before the message sent first (Send by registered name): rounds %v\n",
			len(overtook), rounds, overtook)
		os.Exit(1)
	}
	fmt.Printf("PASS: %d rounds, every pair delivered in the order it was sent\n", rounds)
}
