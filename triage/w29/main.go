// Witness w29 (property C17): a member that terminates while the application is still starting
// its later members. The member group is filled one by one as the spawns return, so when the
// first member dies during the (slow) initialisation of the second, the group is momentarily
// empty: the application is declared stopped — state back to 'loaded', Terminate callback — while
// start() goes on, the second member keeps running and the Start callback comes after Terminate.
package main

import (
	"errors"
	"fmt"
	"os"
	"sync"
	"time"

	"ergo.services/ergo"
	"ergo.services/ergo/act"
	"ergo.services/ergo/gen"
)

var (
	mu     sync.Mutex
	events []string
)

func note(s string) { mu.Lock(); events = append(events, s); mu.Unlock() }

type app struct{}

func (a *app) Load(node gen.Node, args ...any) (gen.ApplicationSpec, error) {
	return gen.ApplicationSpec{
		Name: "w29app",
		Mode: gen.ApplicationModePermanent,
		Group: []gen.ApplicationMemberSpec{
			{Name: "w29first", Factory: func() gen.ProcessBehavior { return &first{} }},
			{Name: "w29second", Factory: func() gen.ProcessBehavior { return &second{} }},
		},
	}, nil
}
func (a *app) Start(mode gen.ApplicationMode) { note("Start callback") }
func (a *app) Terminate(reason error)         { note("Terminate callback (" + reason.Error() + ")") }

// first: terminates right after its initialisation
type first struct{ act.Actor }

func (m *first) Init(args ...any) error { m.Send(m.PID(), "die"); return nil }
func (m *first) HandleMessage(from gen.PID, message any) error {
	return errors.New("first member failed")
}

// second: slow initialisation
type second struct{ act.Actor }

func (m *second) Init(args ...any) error { time.Sleep(300 * time.Millisecond); return nil }

func main() {
	opt := gen.NodeOptions{}
	opt.Network.Mode = gen.NetworkModeDisabled
	opt.Log.DefaultLogger.Disable = true
	node, err := ergo.StartNode("w29@localhost", opt)
	if err != nil {
		panic(err)
	}
	defer node.StopForce()
	name, err := node.ApplicationLoad(&app{})
	if err != nil {
		panic(err)
	}
	err = node.ApplicationStart(name, gen.ApplicationOptions{})
	fmt.Println("ApplicationStart returned:", err)
	time.Sleep(500 * time.Millisecond)
	info, _ := node.ApplicationInfo(name)
	_, e2 := node.ProcessInfo(gen.PID{})
	_ = e2
	pid2, errName := node.ProcessList()
	_ = pid2
	_ = errName
	mu.Lock()
	fmt.Println("callbacks in order:", events)
	mu.Unlock()
	fmt.Println("application state:", info.State, " members in group:", info.Group)
	alive := false
	if list, err := node.ProcessList(); err == nil {
		for _, p := range list {
			if pi, err := node.ProcessInfo(p); err == nil && pi.Name == "w29second" {
				alive = true
			}
		}
	}
	fmt.Println("second member still running:", alive)
	// Permanent mode: the death of a member stops the application: every member terminated, one
	// Terminate callback after the Start callback (or a failed start with nothing left running)
	bad := false
	mu.Lock()
	if len(events) >= 2 && events[0] != "Start callback" {
		fmt.Println("WITNESS: Terminate callback ran before the Start callback")
		bad = true
	}
	mu.Unlock()
	if info.State == gen.ApplicationStateLoaded && alive {
		fmt.Println("WITNESS: application is 'loaded' (stopped) while a member is still running")
		bad = true
	}
	if info.State == gen.ApplicationStateRunning && err == nil {
		fmt.Println("WITNESS: permanent application keeps running although a member terminated")
		bad = true
	}
	if bad {
		os.Exit(1)
	}
	fmt.Println("quiet")
}
