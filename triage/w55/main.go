// pre-existing checks P2 (remotely started application with a member that traps exits)
// and P3 (remote spawn with LinkParent/LinkChild: parent terminates)
package main

import (
	"fmt"
	"sync"
	"time"

	"ergo.services/ergo"
	"ergo.services/ergo/act"
	"ergo.services/ergo/gen"
)

var (
	mtx   sync.Mutex
	kids  []gen.PID
	memb  []gen.PID
	spawn = make(chan gen.PID, 1)
)

// P2
type member struct{ act.Actor }

func factoryMember() gen.ProcessBehavior { return &member{} }
func (m *member) Init(args ...any) error {
	m.SetTrapExit(true)
	mtx.Lock()
	memb = append(memb, m.PID())
	mtx.Unlock()
	return nil
}
func (m *member) HandleMessage(from gen.PID, message any) error {
	fmt.Printf("   member %s (parent %s) got %#v from %s\n", m.PID(), m.Parent(), message, from)
	return nil
}

type app struct{}

func (a *app) Load(node gen.Node, args ...any) (gen.ApplicationSpec, error) {
	return gen.ApplicationSpec{
		Name:  "pre_app",
		Mode:  gen.ApplicationModeTemporary,
		Group: []gen.ApplicationMemberSpec{{Name: "m1", Factory: factoryMember}},
	}, nil
}
func (a *app) Start(mode gen.ApplicationMode) {}
func (a *app) Terminate(reason error)         {}

// P3
type kid struct{ act.Actor }

func factoryKid() gen.ProcessBehavior { return &kid{} }
func (k *kid) Init(args ...any) error {
	mtx.Lock()
	kids = append(kids, k.PID())
	mtx.Unlock()
	return nil
}

type parent struct{ act.Actor }
type doSpawn struct{ node gen.Atom }

func factoryParent() gen.ProcessBehavior { return &parent{} }
func (p *parent) HandleMessage(from gen.PID, message any) error {
	switch m := message.(type) {
	case doSpawn:
		pid, err := p.RemoteSpawn(m.node, "kid", gen.ProcessOptions{LinkParent: true, LinkChild: true})
		if err != nil {
			panic(err)
		}
		spawn <- pid
	case string:
		return gen.TerminateReasonShutdown
	}
	return nil
}

func main() {
	var o1, o2 gen.NodeOptions
	o1.Network.Cookie = "123"
	o2.Network.Cookie = "123"
	o1.Log.DefaultLogger.Disable = true
	o2.Log.DefaultLogger.Disable = true
	node1, err := ergo.StartNode("pre_p23_a@localhost", o1)
	if err != nil {
		panic(err)
	}
	node2, err := ergo.StartNode("pre_p23_b@localhost", o2)
	if err != nil {
		panic(err)
	}
	if _, err := node2.ApplicationLoad(&app{}); err != nil {
		panic(err)
	}
	node2.Network().EnableSpawn("kid", factoryKid)
	node2.Network().EnableApplicationStart("pre_app")
	remote, err := node1.Network().GetNode(node2.Name())
	if err != nil {
		panic(err)
	}

	// P2
	fmt.Println("P2: node1 starts pre_app on node2:", remote.ApplicationStart("pre_app", gen.ApplicationOptions{}))
	time.Sleep(100 * time.Millisecond)
	t := time.Now()
	err = node2.ApplicationStop("pre_app")
	fmt.Println("P2: node2.ApplicationStop:", err, "after", time.Since(t).Round(time.Millisecond))
	info, _ := node2.ApplicationInfo("pre_app")
	fmt.Println("P2: application state:", info.State)
	for _, pid := range memb {
		if pi, e := node2.ProcessInfo(pid); e == nil {
			fmt.Println("P2:   member still alive:", pid, pi.State, "parent", pi.Parent)
		}
	}

	// P3
	ppid, err := node1.Spawn(factoryParent, gen.ProcessOptions{})
	if err != nil {
		panic(err)
	}
	node1.Send(ppid, doSpawn{node2.Name()})
	kpid := <-spawn
	time.Sleep(100 * time.Millisecond)
	node1.Send(ppid, "stop")
	time.Sleep(time.Second)
	_, e1 := node1.ProcessInfo(ppid)
	_, e2 := node2.ProcessInfo(kpid)
	fmt.Println("P3: parent on node1 terminated:", e1 != nil, "; its remote child (LinkParent) on node2 terminated:", e2 != nil)
}
