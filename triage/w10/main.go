package main

import (
	"errors"
	"fmt"
	"os"
	"time"

	"ergo.services/ergo"
	"ergo.services/ergo/act"
	"ergo.services/ergo/gen"
)

// ---- F-U: application dependencies on the mode-overriding start calls
type member struct{ act.Actor }

type app struct {
	name gen.Atom
	deps []gen.Atom
}

func (a *app) Load(node gen.Node, args ...any) (gen.ApplicationSpec, error) {
	return gen.ApplicationSpec{
		Name:    a.name,
		Depends: gen.ApplicationDepends{Applications: a.deps},
		Group:   []gen.ApplicationMemberSpec{{Name: a.name + "_m", Factory: func() gen.ProcessBehavior { return &member{} }}},
	}, nil
}
func (a *app) Start(mode gen.ApplicationMode) {}
func (a *app) Terminate(reason error)         {}

// ---- F-G: name registered at spawn is linkable during init; init then fails
type slowInit struct {
	act.Actor
}

var inInit = make(chan struct{})
var failInit = make(chan struct{})

func (s *slowInit) Init(args ...any) error {
	close(inInit)
	<-failInit
	return errors.New("init failed")
}

type linker struct {
	act.Actor
	ch chan any
}

func (l *linker) Init(args ...any) error { l.ch = args[0].(chan any); l.SetTrapExit(true); return nil }
func (l *linker) HandleMessage(from gen.PID, m any) error {
	switch x := m.(type) {
	case gen.Atom:
		l.ch <- fmt.Sprintf("Link(%s) returned %v", x, l.Link(x))
	default:
		l.ch <- fmt.Sprintf("got %#v", m)
	}
	return nil
}

func main() {
	opt := gen.NodeOptions{}
	opt.Network.Mode = gen.NetworkModeDisabled
	opt.Log.Level = gen.LogLevelError
	tm := gen.CreateDefaultTargetManager()
	opt.TargetManager = tm
	n, _ := ergo.StartNode("x@localhost", opt)

	fmt.Println("== F-U")
	n.ApplicationLoad(&app{name: "base"})
	n.ApplicationLoad(&app{name: "top1", deps: []gen.Atom{"base"}})
	n.ApplicationLoad(&app{name: "top2", deps: []gen.Atom{"base"}})
	err := n.ApplicationStartPermanent("top1", gen.ApplicationOptions{})
	bi, _ := n.ApplicationInfo("base")
	fmt.Printf("  ApplicationStartPermanent(top1) err=%v ; dependency 'base' state: %s\n", err, bi.State)
	err = n.ApplicationStart("top2", gen.ApplicationOptions{})
	bi, _ = n.ApplicationInfo("base")
	fmt.Printf("  ApplicationStart(top2)          err=%v ; dependency 'base' state: %s\n", err, bi.State)

	fmt.Println("== F-G")
	ch := make(chan any, 10)
	lp, _ := n.Spawn(func() gen.ProcessBehavior { return &linker{} }, gen.ProcessOptions{}, ch)
	go func() {
		_, err := n.SpawnRegister("victim", func() gen.ProcessBehavior { return &slowInit{} }, gen.ProcessOptions{})
		ch <- fmt.Sprintf("SpawnRegister(victim) returned %v", err)
	}()
	<-inInit
	n.Send(lp, gen.Atom("victim"))
	fmt.Println(" ", <-ch)
	close(failInit)
	fmt.Println(" ", <-ch)
	select {
	case x := <-ch:
		fmt.Println(" ", x)
	case <-time.After(time.Second):
		fmt.Println("  no exit signal for the linked name; dangling relation:", tm.GetConsumersForTarget(gen.ProcessID{Name: "victim", Node: "x@localhost"}))
	}
	os.Exit(0)
}
