package main

import (
	"fmt"
	"os"
	"time"

	"ergo.services/ergo"
	"ergo.services/ergo/act"
	"ergo.services/ergo/gen"
)

type recv struct {
	act.Actor
	got chan any
}

func (r *recv) Init(args ...any) error { r.got = args[0].(chan any); return nil }
func (r *recv) HandleMessage(from gen.PID, m any) error {
	r.got <- m
	return nil
}

// meta process that sends an important message to a remote pid from its main loop
type mb struct {
	gen.MetaProcess
	to  gen.PID
	res chan string
	go_ chan string
}

func (m *mb) Init(p gen.MetaProcess) error { m.MetaProcess = p; return nil }
func (m *mb) Start() error {
	for tag := range m.go_ {
		err := m.SendImportant(m.to, tag)
		m.res <- fmt.Sprintf("meta.SendImportant(%q) returned: %v", tag, err)
	}
	return nil
}
func (m *mb) HandleMessage(from gen.PID, message any) error                  { return nil }
func (m *mb) HandleCall(from gen.PID, ref gen.Ref, request any) (any, error) { return nil, nil }
func (m *mb) Terminate(reason error)                                         {}
func (m *mb) HandleInspect(from gen.PID, item ...string) map[string]string   { return nil }

type owner struct {
	act.Actor
	m       *mb
	entered chan struct{}
	release chan struct{}
	term    chan error
}

func (o *owner) Init(args ...any) error {
	o.m = args[0].(*mb)
	o.entered = args[1].(chan struct{})
	o.release = args[2].(chan struct{})
	o.term = args[3].(chan error)
	return nil
}
func (o *owner) HandleMessage(from gen.PID, message any) error {
	switch message {
	case "spawnmeta":
		if _, err := o.SpawnMeta(o.m, gen.MetaOptions{}); err != nil {
			panic(err)
		}
	case "busy":
		o.entered <- struct{}{}
		<-o.release
	}
	return nil
}
func (o *owner) Terminate(reason error) { o.term <- reason }

func main() {
	opt := gen.NodeOptions{}
	opt.Network.Cookie = "abc"
	opt.Log.Level = gen.LogLevelError
	a, _ := ergo.StartNode("a@localhost", opt)
	b, _ := ergo.StartNode("b@localhost", opt)
	got := make(chan any, 10)
	rp, _ := b.Spawn(func() gen.ProcessBehavior { return &recv{} }, gen.ProcessOptions{}, got)

	m := &mb{to: rp, res: make(chan string, 4), go_: make(chan string, 4)}
	entered, release, term := make(chan struct{}, 1), make(chan struct{}), make(chan error, 1)
	op, _ := a.Spawn(func() gen.ProcessBehavior { return &owner{} }, gen.ProcessOptions{}, m, entered, release, term)
	a.Send(op, "spawnmeta")
	time.Sleep(200 * time.Millisecond)

	fmt.Println("-- case 1: parent process idle (state sleep)")
	m.go_ <- "m1"
	fmt.Println("  ", <-m.res)
	select {
	case x := <-got:
		fmt.Println("   remote receiver handled:", x)
	case <-time.After(time.Second):
		fmt.Println("   remote receiver got nothing")
	}

	fmt.Println("-- case 2: parent process busy inside a handler (state running)")
	a.Send(op, "busy")
	<-entered
	m.go_ <- "m2"
	time.Sleep(50 * time.Millisecond)
	st, _ := a.ProcessState(op)
	fmt.Println("   parent state while ITS OWN handler is executing and the meta waits:", st)
	fmt.Println("  ", <-m.res)
	close(release)
	select {
	case r := <-term:
		fmt.Println("   parent terminated, reason:", r)
	case <-time.After(time.Second):
		fmt.Println("   parent still alive")
	}
	os.Exit(0)
}
