package main

import (
	"fmt"
	"net"
	"os"
	"time"

	"ergo.services/ergo"
	"ergo.services/ergo/gen"
	"ergo.services/ergo/net/handshake"
)

type fakeNode struct{}

func (fakeNode) Name() gen.Atom       { return "evil@localhost" }
func (fakeNode) Creation() int64      { return time.Now().Unix() }
func (fakeNode) Version() gen.Version { return gen.Version{} }

func main() {
	mode := os.Args[1]
	switch mode {
	case "cookie":
		// node b has node cookie "NODE" and one acceptor with its own cookie "ACC"
		optB := gen.NodeOptions{}
		optB.Log.Level = gen.LogLevelError
		optB.Network.Cookie = "NODE"
		optB.Network.Acceptors = []gen.AcceptorOptions{{Port: 21001, Cookie: "ACC"}}
		_, err := ergo.StartNode("b@localhost", optB)
		if err != nil {
			panic(err)
		}
		for _, cookie := range []string{"ACC", "NODE"} {
			c, err := net.Dial("tcp", "localhost:21001")
			if err != nil {
				panic(err)
			}
			hs := handshake.Create(handshake.Options{})
			_, err = hs.Start(fakeNode{}, c, gen.HandshakeOptions{Cookie: cookie, Flags: gen.DefaultNetworkFlags})
			fmt.Printf("handshake to acceptor(cookie=ACC) of node(cookie=NODE) presenting %q -> err=%v\n", cookie, err)
			c.Close()
		}
	case "crash":
		optB := gen.NodeOptions{}
		optB.Log.Level = gen.LogLevelError
		optB.Network.Cookie = "NODE"
		optB.Network.Acceptors = []gen.AcceptorOptions{{Port: 21002}}
		_, err := ergo.StartNode("b@localhost", optB)
		if err != nil {
			panic(err)
		}
		c, err := net.Dial("tcp", "localhost:21002")
		if err != nil {
			panic(err)
		}
		hs := handshake.Create(handshake.Options{})
		_, err = hs.Start(fakeNode{}, c, gen.HandshakeOptions{Cookie: "NODE", Flags: gen.DefaultNetworkFlags})
		fmt.Println("handshake err:", err)
		// frame: magic 78, version 1, length 0, order 0, type 101
		c.Write([]byte{78, 1, 0, 0, 0, 0, 0, 101})
		time.Sleep(time.Second)
		fmt.Println("node survived")
	}
	os.Exit(0)
}
