// Witness w31 (properties C06/C10): a meta process spawned (by another meta process of the same
// parent, the usual way a listener meta starts a per-connection meta) while the parent process is
// terminating. SpawnMeta checks that the parent is alive only before the new meta's Init; the
// parent's termination walks its meta processes in between, so the new one is registered afterwards:
// it never gets an exit, its Start() runs for ever and its alias stays registered for a dead process.
package main

import (
	"fmt"
	"os"
	"sync/atomic"
	"time"

	"ergo.services/ergo"
	"ergo.services/ergo/act"
	"ergo.services/ergo/gen"
)

type listener struct {
	gen.MetaProcess
	spawnNow chan struct{}
	child    *conn
	result   chan error
}

func (m *listener) Init(p gen.MetaProcess) error { m.MetaProcess = p; return nil }
func (m *listener) Start() error {
	<-m.spawnNow
	_, err := m.Spawn(m.child, gen.MetaOptions{})
	m.result <- err
	select {}
}
func (m *listener) HandleMessage(from gen.PID, message any) error                 { return nil }
func (m *listener) HandleCall(from gen.PID, ref gen.Ref, request any) (any, error) { return nil, nil }
func (m *listener) Terminate(reason error)                                         {}
func (m *listener) HandleInspect(from gen.PID, item ...string) map[string]string   { return nil }

type conn struct {
	gen.MetaProcess
	inInit     chan struct{}
	started    int32
	terminated int32
}

func (m *conn) Init(p gen.MetaProcess) error {
	m.MetaProcess = p
	close(m.inInit)
	time.Sleep(300 * time.Millisecond) // e.g. a protocol handshake
	return nil
}
func (m *conn) Start() error {
	atomic.StoreInt32(&m.started, 1)
	select {} // serves its connection until told to stop
}
func (m *conn) HandleMessage(from gen.PID, message any) error                 { return nil }
func (m *conn) HandleCall(from gen.PID, ref gen.Ref, request any) (any, error) { return nil, nil }
func (m *conn) Terminate(reason error)                                         { atomic.StoreInt32(&m.terminated, 1) }
func (m *conn) HandleInspect(from gen.PID, item ...string) map[string]string   { return nil }

type owner struct {
	act.Actor
}

type spawnReq struct {
	m  gen.MetaBehavior
	ch chan gen.Alias
}

func (o *owner) HandleMessage(from gen.PID, message any) error {
	switch r := message.(type) {
	case spawnReq:
		a, err := o.SpawnMeta(r.m, gen.MetaOptions{})
		if err != nil {
			panic(err)
		}
		r.ch <- a
	case string:
		return gen.TerminateReasonNormal
	}
	return nil
}

func main() {
	opt := gen.NodeOptions{}
	opt.Network.Mode = gen.NetworkModeDisabled
	opt.Log.Level = gen.LogLevelDisabled
	n, _ := ergo.StartNode("w31@localhost", opt)
	defer n.StopForce()
	pid, _ := n.Spawn(func() gen.ProcessBehavior { return &owner{} }, gen.ProcessOptions{})
	c := &conn{inInit: make(chan struct{})}
	l := &listener{spawnNow: make(chan struct{}), child: c, result: make(chan error, 1)}
	ch := make(chan gen.Alias, 1)
	n.Send(pid, spawnReq{l, ch})
	<-ch
	time.Sleep(50 * time.Millisecond)
	close(l.spawnNow) // the listener starts a per-connection meta process ...
	<-c.inInit
	n.Send(pid, "stop") // ... and the parent terminates while that one is initialising
	time.Sleep(100 * time.Millisecond)
	_, e := n.ProcessInfo(pid)
	fmt.Println("parent process:", e)
	err := <-l.result
	fmt.Println("Spawn of the connection meta returned:", err)
	time.Sleep(500 * time.Millisecond)
	st, tm := atomic.LoadInt32(&c.started), atomic.LoadInt32(&c.terminated)
	fmt.Printf("connection meta: started=%d terminated=%d\n", st, tm)
	if err == nil && (st == 1 && tm == 0) {
		fmt.Println("WITNESS: a meta process of a terminated process keeps running (never told to stop, alias still registered)")
		os.Exit(1)
	}
	fmt.Println("quiet")
}
