// Witness w40 (property C18), written by the C18 seeding agent: subscribing to a buffered event while its producer publishes (buffer full)
// panics the subscriber: the buffer flush pops and clears the item the subscribe function is reading.

package main

import (
	"fmt"
	"sync/atomic"
	"time"

	"ergo.services/ergo"
	"ergo.services/ergo/act"
	"ergo.services/ergo/gen"
)

type fn func(p *worker) error

type worker struct {
	act.Actor
}

func (w *worker) HandleMessage(from gen.PID, message any) error {
	switch m := message.(type) {
	case fn:
		return m(w)
	}
	return nil
}
func (w *worker) HandleEvent(ev gen.MessageEvent) error { return nil }
func (w *worker) Terminate(reason error) {
	if reason != gen.TerminateReasonKill && reason != gen.TerminateReasonNormal {
		fmt.Println("worker terminated:", reason)
	}
}

func spawn(node gen.Node) gen.PID {
	pid, err := node.Spawn(func() gen.ProcessBehavior { return &worker{} }, gen.ProcessOptions{})
	if err != nil {
		panic(err)
	}
	return pid
}

func main() {
	opt := gen.NodeOptions{}
	opt.Network.Mode = gen.NetworkModeDisabled
	node, err := ergo.StartNode("p4@localhost", opt)
	if err != nil {
		panic(err)
	}
	defer node.Stop()
	prod := spawn(node)
	var stop int32
	name := gen.Atom("ev")
	ev := gen.Event{Name: name, Node: node.Name()}
	ready := make(chan bool)
	node.Send(prod, fn(func(w *worker) error {
		token, err := w.RegisterEvent(name, gen.EventOptions{Buffer: 1})
		if err != nil {
			panic(err)
		}
		close(ready)
		i := 0
		for atomic.LoadInt32(&stop) == 0 {
			w.SendEvent(name, token, i)
			i++
		}
		return nil
	}))
	<-ready
	var subs, fails int64
	for k := 0; k < 3; k++ {
		sub := spawn(node)
		node.Send(sub, fn(func(w *worker) error {
			for atomic.LoadInt32(&stop) == 0 {
				if _, err := w.MonitorEvent(ev); err != nil {
					atomic.AddInt64(&fails, 1)
					continue
				}
				atomic.AddInt64(&subs, 1)
				w.DemonitorEvent(ev)
			}
			return nil
		}))
	}
	time.Sleep(20 * time.Second)
	atomic.StoreInt32(&stop, 1)
	time.Sleep(200 * time.Millisecond)
	fmt.Println("subscriptions:", subs, "fails:", fails)
}
