#!/bin/sh
# Run one triage witness against /repo's current tree in a scratch dir outside /repo and /verif.
# usage: [ERGO_REPO=/path/to/tree] triage/run.sh w2 [args...]
set -e
w="$1"; shift
d=$(mktemp -d /tmp/witness.XXXXXX)
trap 'rm -rf "$d"' EXIT
cp "$(dirname "$0")/$w/main.go" "$d/main.go"
sed "s#=> /repo#=> ${ERGO_REPO:-/repo}#" "$(dirname "$0")/go.mod.tmpl" > "$d/go.mod"
cp "${ERGO_REPO:-/repo}/go.sum" "$d/go.sum" 2>/dev/null || true
cd "$d"
GOFLAGS=-mod=mod GOPROXY=off GOSUMDB=off GOTOOLCHAIN=local GOWORK=off go run . "$@"
