// Demo for C18-e.
//
// One producer publishes the numbers 1, 2, 3, ... on a buffered event
// (gen.EventOptions.Buffer = 8). A few consumers keep subscribing (LinkEvent)
// and unsubscribing (UnlinkEvent) while the producer is publishing.
//
// A new subscriber is handed the last buffered publications and receives every
// publication made after that in its mailbox, so for every subscription
//
//     <the list returned by LinkEvent> followed by <the events in the mailbox>
//
// must have no holes: after the last number of the list (k) the numbers
// k+1, k+2, ... must arrive (numbers <= k may arrive as well - leftovers of
// the previous subscription of the same process, they are ignored).
// A hole means that a publication made after the subscription was never
// delivered to the subscriber.
//
// exit code 0 - PASS, 1 - FAIL (property violated)
package main

import (
	"fmt"
	"os"
	"runtime"
	"sync/atomic"
	"time"

	"ergo.services/ergo"
	"ergo.services/ergo/act"
	"ergo.services/ergo/gen"
)

const (
	eventName = gen.Atom("numbers")
	bufferLen = 8
	duration  = 30 * time.Second
)

var (
	stop     atomic.Bool
	failed   atomic.Bool
	cycles   atomic.Int64
	failures = make(chan string, 100)
)

//
// producer
//

type producer struct {
	act.Actor
	token gen.Ref
	seq   int
}

type doRegister struct{ done chan error }
type doPublish struct{}

func (p *producer) HandleMessage(from gen.PID, message any) error {
	switch m := message.(type) {
	case doRegister:
		token, err := p.RegisterEvent(eventName, gen.EventOptions{Buffer: bufferLen})
		p.token = token
		if err == nil {
			// something for the buffer
			for i := 0; i < bufferLen; i++ {
				p.seq++
				if err = p.SendEvent(eventName, p.token, p.seq); err != nil {
					break
				}
			}
		}
		m.done <- err
	case doPublish:
		if stop.Load() {
			return nil
		}
		for i := 0; i < 64; i++ {
			p.seq++
			if err := p.SendEvent(eventName, p.token, p.seq); err != nil {
				failures <- fmt.Sprintf("producer: SendEvent(%d): %s", p.seq, err)
				failed.Store(true)
				return nil
			}
			if i%4 == 0 {
				runtime.Gosched()
			}
		}
		p.Send(p.PID(), doPublish{})
	}
	return nil
}

//
// consumer
//

type consumer struct {
	act.Actor
	id         int
	event      gen.Event
	subscribed bool
	last       int // the last number seen within the current subscription
	fresh      int // the number of publications got after the subscription
}

type doCycle struct{}

func (c *consumer) Init(args ...any) error {
	c.id = args[0].(int)
	c.event = args[1].(gen.Event)
	return nil
}

func (c *consumer) HandleMessage(from gen.PID, message any) error {
	switch message.(type) {
	case doCycle:
		if stop.Load() || failed.Load() {
			return nil
		}
		list, err := c.LinkEvent(c.event)
		if err != nil {
			failures <- fmt.Sprintf("consumer %d: LinkEvent: %s", c.id, err)
			failed.Store(true)
			return nil
		}
		if len(list) == 0 || len(list) > bufferLen {
			failures <- fmt.Sprintf("consumer %d: LinkEvent returned %d buffered publications", c.id, len(list))
			failed.Store(true)
			return nil
		}
		prev := 0
		for i, ev := range list {
			v := ev.Message.(int)
			if i > 0 && v != prev+1 {
				failures <- fmt.Sprintf("consumer %d: buffered publications are out of order: %d after %d", c.id, v, prev)
				failed.Store(true)
				return nil
			}
			prev = v
		}
		c.subscribed = true
		c.last = prev
		c.fresh = 0
	}
	return nil
}

func (c *consumer) HandleEvent(ev gen.MessageEvent) error {
	if c.subscribed == false || failed.Load() {
		// leftover of the previous subscription
		return nil
	}
	v := ev.Message.(int)
	if v <= c.last {
		// leftover of the previous subscription, or the publication that has
		// been handed over within the list of the buffered ones
		return nil
	}
	if v != c.last+1 {
		failures <- fmt.Sprintf("consumer %d: subscribed and got the buffered publications up to %d, "+
			"the next publication delivered is %d: %d publication(s) made after the subscription are lost",
			c.id, c.last, v, v-c.last-1)
		failed.Store(true)
		return nil
	}
	c.last = v
	c.fresh++
	if c.fresh < 2 {
		return nil
	}
	// next round
	if err := c.UnlinkEvent(c.event); err != nil {
		failures <- fmt.Sprintf("consumer %d: UnlinkEvent: %s", c.id, err)
		failed.Store(true)
		return nil
	}
	c.subscribed = false
	cycles.Add(1)
	c.Send(c.PID(), doCycle{})
	return nil
}

func main() {
	runtime.GOMAXPROCS(4)

	opt := gen.NodeOptions{}
	opt.Log.DefaultLogger.Disable = true
	opt.Network.Cookie = "p6"
	node, err := ergo.StartNode("p6O@localhost", opt)
	if err != nil {
		panic(err)
	}
	defer node.StopForce()
	nodeS, err := ergo.StartNode("p6S@localhost", opt)
	if err != nil {
		panic(err)
	}
	defer nodeS.StopForce()

	event := gen.Event{Name: eventName, Node: node.Name()}

	ppid, err := node.Spawn(func() gen.ProcessBehavior { return &producer{} }, gen.ProcessOptions{})
	if err != nil {
		panic(err)
	}
	done := make(chan error, 1)
	node.Send(ppid, doRegister{done})
	if err := <-done; err != nil {
		fmt.Println("FAIL: unable to register event:", err)
		os.Exit(1)
	}

	for i := 0; i < 3; i++ {
		cpid, err := nodeS.Spawn(func() gen.ProcessBehavior { return &consumer{} }, gen.ProcessOptions{}, i, event)
		if err != nil {
			panic(err)
		}
		nodeS.Send(cpid, doCycle{})
	}
	node.Send(ppid, doPublish{})

	deadline := time.After(duration)
	tick := time.NewTicker(100 * time.Millisecond)
loop:
	for {
		select {
		case <-deadline:
			break loop
		case <-tick.C:
			if failed.Load() {
				break loop
			}
		}
	}
	stop.Store(true)
	time.Sleep(300 * time.Millisecond)

	if failed.Load() {
		for len(failures) > 0 {
			fmt.Println(<-failures)
		}
		fmt.Printf("FAIL (after %d subscriptions)\n", cycles.Load())
		os.Exit(1)
	}
	if cycles.Load() < 1000 {
		fmt.Printf("FAIL: only %d subscriptions have been made, the demo is stuck\n", cycles.Load())
		os.Exit(1)
	}
	fmt.Printf("PASS (%d subscriptions, no publication lost)\n", cycles.Load())
}
