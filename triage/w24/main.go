// Witness w24 (property C18): the subscriber counter of an event with notifications is adjusted by
// UnlinkEvent/DemonitorEvent only. A subscriber that terminates while subscribed is never counted
// out: after A (terminated) and B (unsubscribed) nobody is subscribed, but the producer gets no
// MessageEventStop; the next subscriber C is "the first one" again, but no MessageEventStart.
package main

import (
	"fmt"
	"os"
	"time"

	"ergo.services/ergo"
	"ergo.services/ergo/act"
	"ergo.services/ergo/gen"
)

var notes = make(chan string, 16)

type producer struct{ act.Actor }

func (p *producer) HandleMessage(from gen.PID, message any) error {
	if message == "reg" {
		_, err := p.RegisterEvent("w24ev", gen.EventOptions{Notify: true})
		notes <- fmt.Sprintf("registered: %v", err)
		return nil
	}
	switch message.(type) {
	case gen.MessageEventStart:
		notes <- "start"
	case gen.MessageEventStop:
		notes <- "stop"
	}
	return nil
}

type sub struct{ act.Actor }

func (s *sub) HandleMessage(from gen.PID, message any) error {
	ev := gen.Event{Name: "w24ev", Node: s.Node().Name()}
	switch message {
	case "link":
		_, err := s.LinkEvent(ev)
		notes <- fmt.Sprintf("%s linked: %v", s.Name(), err)
	case "unlink":
		err := s.UnlinkEvent(ev)
		notes <- fmt.Sprintf("%s unlinked: %v", s.Name(), err)
	}
	return nil
}
func (s *sub) HandleEvent(ev gen.MessageEvent) error { return nil }

func expect(want string) bool {
	select {
	case got := <-notes:
		fmt.Println("  <-", got)
		return got == want
	case <-time.After(1500 * time.Millisecond):
		fmt.Println("  <- (nothing) expected:", want)
		return false
	}
}

func main() {
	opt := gen.NodeOptions{}
	opt.Network.Mode = gen.NetworkModeDisabled
	opt.Log.DefaultLogger.Disable = true
	node, err := ergo.StartNode("w24@localhost", opt)
	if err != nil {
		panic(err)
	}
	defer node.StopForce()
	if _, err := node.SpawnRegister("producer", func() gen.ProcessBehavior { return &producer{} }, gen.ProcessOptions{}); err != nil {
		panic(err)
	}
	spawn := func(name gen.Atom) gen.PID {
		p, err := node.SpawnRegister(name, func() gen.ProcessBehavior { return &sub{} }, gen.ProcessOptions{})
		if err != nil {
			panic(err)
		}
		return p
	}
	a, _, c := spawn("A"), spawn("B"), spawn("C")
	ok := true
	node.Send(gen.Atom("producer"), "reg")
	ok = expect("registered: <nil>") && ok
	fmt.Println("A subscribes (first subscriber):")
	node.Send(gen.Atom("A"), "link")
	ok = expect("'A' linked: <nil>") && ok
	ok = expect("start") && ok
	fmt.Println("B subscribes:")
	node.Send(gen.Atom("B"), "link")
	ok = expect("'B' linked: <nil>") && ok
	fmt.Println("A is killed, B unsubscribes (last subscriber leaves):")
	node.Kill(a)
	time.Sleep(200 * time.Millisecond)
	node.Send(gen.Atom("B"), "unlink")
	ok = expect("'B' unlinked: <nil>") && ok
	stopSeen := expect("stop")
	fmt.Println("C subscribes (first subscriber again):")
	node.Send(c, "link")
	ok = expect("'C' linked: <nil>") && ok
	startSeen := expect("start")
	if !ok {
		fmt.Println("unexpected sequence")
		os.Exit(2)
	}
	if !stopSeen || !startSeen {
		fmt.Println("VIOLATION (C18): the producer was not told that the last subscriber left / that a first subscriber arrived again (a terminated subscriber is never counted out)")
		os.Exit(1)
	}
	fmt.Println("ok")
}
