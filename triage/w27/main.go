// Witness w27 (property C14): node A dialled node B. B drops the connection (RemoteNode.Disconnect)
// but keeps running. On A the link goroutines re-dial B's acceptor with the old connection id; B no
// longer knows that connection and closes each attempt, A dials again, and so on: A never reaches
// unregisterConnection, so the process on A that monitors node B never gets its DownNode (and the
// re-dial loop spins).
//
// run inside a private network namespace: unshare -n sh -c "ip link set lo up; triage/run.sh w27"
package main

import (
	"fmt"
	"os"
	"time"

	"ergo.services/ergo"
	"ergo.services/ergo/act"
	"ergo.services/ergo/gen"
)

var notes = make(chan string, 16)

type watcher struct{ act.Actor }

func (w *watcher) HandleMessage(from gen.PID, message any) error {
	switch m := message.(type) {
	case gen.Atom:
		notes <- fmt.Sprintf("monitor %s: %v", m, w.MonitorNode(m))
	case gen.MessageDownNode:
		notes <- fmt.Sprintf("down %s", m.Name)
	}
	return nil
}

func main() {
	o := gen.NodeOptions{}
	o.Network.Cookie = "w27"
	o.Log.DefaultLogger.Disable = true
	a, err := ergo.StartNode("w27a@localhost", o)
	if err != nil {
		panic(err)
	}
	defer a.StopForce()
	b, err := ergo.StartNode("w27b@localhost", o)
	if err != nil {
		panic(err)
	}
	defer b.StopForce()
	if _, err := a.Network().GetNode(b.Name()); err != nil { // A dials B
		panic(err)
	}
	wa, _ := a.Spawn(func() gen.ProcessBehavior { return &watcher{} }, gen.ProcessOptions{})
	a.Send(wa, b.Name())
	fmt.Println(<-notes)
	time.Sleep(500 * time.Millisecond) // let the pool fill
	ra, err := b.Network().Node(a.Name())
	if err != nil {
		panic(err)
	}
	fmt.Println("B disconnects A")
	ra.Disconnect()
	select {
	case n := <-notes:
		fmt.Println(n)
		fmt.Println("ok")
	case <-time.After(6 * time.Second):
		nodes := a.Network().Nodes()
		fmt.Println("A still lists:", nodes)
		fmt.Println("VIOLATION (C14): the connection was dropped by the peer 6s ago, the process monitoring the node has not been told")
		os.Exit(1)
	}
}
