package main

import (
	"errors"
	"fmt"
	"sync/atomic"
	"time"

	"ergo.services/ergo/act"
	"ergo.services/ergo/gen"
	"ergo.services/ergo/node"
)

var failInit int32
var acks = make(chan gen.PID, 100)

type worker struct{ act.Actor }

func (w *worker) Init(args ...any) error {
	if atomic.LoadInt32(&failInit) == 1 {
		return errors.New("temporarily unavailable")
	}
	return nil
}
func (w *worker) HandleMessage(from gen.PID, m any) error {
	if s, ok := m.(string); ok && s == "die" {
		acks <- w.PID()
		return gen.TerminateReasonNormal
	}
	acks <- w.PID()
	return nil
}

type pool struct{ act.Pool }

func (p *pool) Init(args ...any) (act.PoolOptions, error) {
	return act.PoolOptions{PoolSize: 3, WorkerFactory: func() gen.ProcessBehavior { return &worker{} }}, nil
}

func main() {
	nopt := gen.NodeOptions{}
	nopt.Log.DefaultLogger.Disable = true
	nopt.Network.Mode = gen.NetworkModeDisabled
	n, _ := node.Start("pre@localhost", nopt, gen.Version{})
	pp, _ := n.Spawn(func() gen.ProcessBehavior { return &pool{} }, gen.ProcessOptions{})
	n.Send(pp, "die")
	dead := <-acks
	time.Sleep(100 * time.Millisecond)
	fmt.Println("dead worker", dead)
	atomic.StoreInt32(&failInit, 1)
	// 2 msgs go to w2, w3; third finds w1 dead, spawn fails
	for i := 0; i < 3; i++ {
		n.Send(pp, i)
		fmt.Println("handled by", <-acks)
	}
	atomic.StoreInt32(&failInit, 0)
	seen := map[gen.PID]bool{}
	for i := 0; i < 12; i++ {
		n.Send(pp, i)
		seen[<-acks] = true
	}
	fmt.Println("distinct workers serving after the failed respawn:", len(seen), "(configured 3)")
	n.StopForce()
}
