// ergocheck decides clauses of the ergo properties C01..C20 from /repo's source
// (type-checked syntax, SSA, call graph). It never executes the code under analysis.
package main

import (
	"bytes"
	"encoding/json"
	"flag"
	"fmt"
	"os"
	"os/exec"
	"path/filepath"
	"sort"
	"strconv"
	"strings"
	"sync"
	"time"

	"verif/internal/core"
	"verif/internal/load"
	"verif/internal/rules"
)

func verifDir() string {
	if d := os.Getenv("VERIF_DIR"); d != "" {
		return d
	}
	exe, err := os.Executable()
	if err == nil {
		d := filepath.Dir(filepath.Dir(exe))
		if _, err := os.Stat(filepath.Join(d, "properties.jsonl")); err == nil {
			return d
		}
	}
	return "/verif"
}

func main() {
	prop := flag.String("p", "", "property id (C01..C20)")
	tier := flag.String("tier", "", "quick|thorough (default: $VERIF_TIER or quick)")
	replay := flag.String("replay", "", "replay file: re-evaluate the recorded obligation on the current tree")
	overlayDiff := flag.String("overlay-diff", "", "analyse the tree with this unified diff applied in memory (checker self-test)")
	tags := flag.String("tags", "", "extra build tags")
	goarch := flag.String("goarch", "", "GOARCH for the analysed configuration")
	noEvidence := flag.Bool("no-evidence", false, "do not write evidence/replay files (self-test runs)")
	list := flag.Bool("list", false, "print every obligation")
	describe := flag.Bool("describe", false, "print the rule sets' descriptions (explanation, not decided, assumptions) as JSON and exit")
	flag.Parse()

	if *describe {
		out := map[string]map[string]any{}
		for id, rs := range rules.Registry {
			out[id] = map[string]any{"explanation": rs.Explanation, "not_decided": rs.NotDecided, "assumptions": rs.Assumptions}
		}
		b, _ := json.MarshalIndent(out, "", " ")
		fmt.Println(string(b))
		return
	}

	if *replay != "" {
		os.Exit(doReplay(*replay))
	}
	if *prop == "" {
		fmt.Fprintln(os.Stderr, "usage: ergocheck -p Cnn [-tier quick|thorough]")
		os.Exit(2)
	}
	if *tier == "" {
		*tier = os.Getenv("VERIF_TIER")
	}
	if *tier != "thorough" {
		*tier = "quick"
	}
	seed, _ := strconv.Atoi(os.Getenv("VERIF_SEED"))
	rs, ok := rules.Registry[*prop]
	if !ok {
		fmt.Fprintf(os.Stderr, "no rules for property %s\n", *prop)
		os.Exit(2)
	}
	t0 := time.Now()
	vd := verifDir()

	cfg := load.Config{Tags: *tags, GOARCH: *goarch}
	if *overlayDiff != "" {
		ov, err := overlayFromDiff(load.RepoDir(), *overlayDiff)
		if err != nil {
			fmt.Printf("OVERLAY-SKIP %s: %v\n", *overlayDiff, err)
			os.Exit(3)
		}
		cfg.Overlay = ov
	}

	type cfgRun struct {
		name string
		cfg  load.Config
	}
	runs := []cfgRun{{"default", cfg}}
	if *tier == "thorough" && *overlayDiff == "" {
		c2 := cfg
		c2.Tags = strings.Trim(cfg.Tags+",trace", ",")
		runs = append(runs, cfgRun{"tags=trace", c2})
		// -tags debug adds the pprof endpoint file; -tags norecover flips lib.Recover() (constant false):
		// the recover barriers become dead code, which must not make any rule pass vacuously
		c3 := cfg
		c3.Tags = strings.Trim(cfg.Tags+",debug", ",")
		runs = append(runs, cfgRun{"tags=debug", c3})
		// (GOARCH=386 was planned but the tree itself does not type-check there:
		// lib/compress.go compares an int with math.MaxUint32)
	}

	kf, err := core.LoadFindings(filepath.Join(vd, "known_findings.json"))
	if err != nil {
		kf = &core.Findings{}
	}

	var merged *core.Report
	cfgSummaries := []map[string]any{}
	fatal := ""
	for _, r := range runs {
		prog, err := load.Load(r.cfg)
		if err != nil {
			fatal = fmt.Sprintf("[%s] %v", r.name, err)
			break
		}
		rep := core.NewReport(*prop)
		func() {
			defer func() {
				if x := recover(); x != nil {
					rep.Unk(*prop+".engine", *prop+".engine|panic", "", "", "analysis completes", fmt.Sprintf("analyzer panic: %v", x))
				}
			}()
			rs.Run(prog, rep)
		}()
		cfgSummaries = append(cfgSummaries, map[string]any{
			"config": r.name, "packages": len(prog.Roots), "packages_with_deps": prog.NumPkgsAll,
			"source_functions": len(prog.SrcFuncs), "load_s": round(prog.LoadSeconds), "obligations": len(rep.Obligations),
		})
		if merged == nil {
			merged = rep
		} else {
			// a non-discharged obligation under another configuration is added (deduplicated by key)
			seen := map[string]bool{}
			for _, o := range merged.Obligations {
				seen[o.Key+"|"+string(o.Verdict)] = true
			}
			for _, o := range rep.Obligations {
				if o.Verdict != core.Discharged && !seen[o.Key+"|"+string(o.Verdict)] {
					o.Detail = "[" + r.name + "] " + o.Detail
					merged.Obligations = append(merged.Obligations, o)
				}
			}
			for k, v := range rep.Floors {
				c := rep.InstancesByRule()[k]
				if c < v {
					merged.Notes = append(merged.Notes, fmt.Sprintf("[%s] rule %s matched %d < floor %d", r.name, k, c, v))
					merged.Unk(k, k+"|floor|"+r.name, "", "", "instance floor under "+r.name, fmt.Sprintf("%d < %d", c, v))
				}
			}
		}
	}

	if fatal != "" {
		fmt.Printf("ergocheck %s: cannot analyse the tree: %s\n", *prop, fatal)
		rp := filepath.Join(vd, "evidence", "replay", *prop+"-load.json")
		if !*noEvidence {
			core.WriteJSON(rp, map[string]any{"property": *prop, "key": "load", "detail": fatal})
			writeEvidence(vd, *prop, *tier, seed, rs, nil, core.Outcome{}, cfgSummaries, nil, time.Since(t0).Seconds(), 1, fatal)
		}
		fmt.Printf("VIOLATION property=%s replay=%s\n", *prop, rp)
		os.Exit(1)
	}

	out := merged.Decide(kf)

	// print
	counts := merged.InstancesByRule()
	var rk []string
	for k := range counts {
		rk = append(rk, k)
	}
	sort.Strings(rk)
	fmt.Printf("ergocheck %s tier=%s tree=%s\n", *prop, *tier, load.RepoDir())
	for _, k := range rk {
		d := 0
		for _, o := range merged.Obligations {
			if strings.HasPrefix(o.Rule, k) && (len(o.Rule) == len(k) || o.Rule[len(k)] == ' ') && o.Verdict == core.Discharged {
				d++
			}
		}
		fl := ""
		if f, ok := merged.Floors[k]; ok {
			fl = fmt.Sprintf(" (floor %d)", f)
		}
		fmt.Printf("  rule %-10s instances=%d discharged=%d%s\n", k, counts[k], d, fl)
	}
	if *list {
		for _, o := range merged.Obligations {
			fmt.Printf("  [%s] %s | %s | %s | %s | %s\n", o.Verdict, o.Rule, o.Func, o.Pos, o.Instance, o.Detail)
		}
	}
	for _, n := range merged.Notes {
		fmt.Println("  note:", n)
	}

	var mut map[string]any
	if *tier == "thorough" && *overlayDiff == "" {
		mut = runMutants(vd, *prop)
	}

	nviol := len(out.Violations) + len(out.FloorFailures)
	for _, o := range out.Known {
		fmt.Printf("KNOWN-FINDING: property=%s %s [%s at %s]\n", *prop, o.Detail, o.Key, o.Pos)
	}
	for _, f := range out.StaleFindings {
		fmt.Printf("  note: known finding %q is listed open but was not reproduced on this tree (key %s)\n", f.What, f.Key)
	}
	exit := 0
	for _, ff := range out.FloorFailures {
		rp := filepath.Join(vd, "evidence", "replay", *prop+"-floor.json")
		if !*noEvidence {
			core.WriteJSON(rp, map[string]any{"property": *prop, "key": "floor", "detail": ff})
		}
		fmt.Printf("  %s\n", ff)
		fmt.Printf("VIOLATION property=%s replay=%s\n", *prop, rp)
		exit = 1
	}
	for _, o := range out.Violations {
		rp := filepath.Join(vd, "evidence", "replay", *prop+"-"+core.SafeName(o.Key)+".json")
		if !*noEvidence {
			core.WriteJSON(rp, map[string]any{"property": *prop, "key": o.Key, "obligation": o})
		}
		fmt.Printf("  %s: %s\n    rule: %s\n    instance: %s\n    at: %s in %s\n    why: %s\n", strings.ToUpper(string(o.Verdict)), o.Key, o.Rule, o.Instance, o.Pos, o.Func, o.Detail)
		fmt.Printf("VIOLATION property=%s replay=%s\n", *prop, rp)
		exit = 1
	}
	if !*noEvidence {
		writeEvidence(vd, *prop, *tier, seed, rs, merged, out, cfgSummaries, mut, time.Since(t0).Seconds(), nviol, "")
	}
	if exit == 0 {
		fmt.Printf("OK property=%s obligations=%d discharged=%d known=%d wall=%.1fs\n", *prop, len(merged.Obligations), len(merged.Obligations)-len(out.Known), len(out.Known), time.Since(t0).Seconds())
	}
	os.Exit(exit)
}

func round(f float64) float64 { return float64(int(f*10)) / 10 }

func writeEvidence(vd, prop, tier string, seed int, rs rules.Set, rep *core.Report, out core.Outcome, cfgs []map[string]any, mut map[string]any, wall float64, nviol int, fatal string) {
	cov := map[string]any{
		"explanation":    rs.Explanation,
		"not_decided":    rs.NotDecided,
		"configurations": cfgs,
		"checker_cmd":    "bin/ergocheck -p " + prop + " -tier " + tier,
	}
	if fatal != "" {
		cov["fatal"] = fatal
	}
	if rep != nil {
		disch := 0
		und := 0
		for _, o := range rep.Obligations {
			switch o.Verdict {
			case core.Discharged:
				disch++
			case core.Undecided:
				und++
			}
		}
		cov["obligations"] = len(rep.Obligations)
		cov["discharged"] = disch
		cov["undecided"] = und
		cov["known_findings_reproduced"] = len(out.Known)
		cov["instances_by_rule"] = rep.InstancesByRule()
		cov["floor_by_rule"] = rep.Floors
		cov["functions"] = rep.Functions
		cov["call_sites"] = rep.CallSites
		cov["paths"] = rep.Paths
		cov["evaluations"] = len(rep.Obligations)
		keys := map[string]bool{}
		for _, o := range rep.Obligations {
			keys[o.Key] = true
		}
		cov["distinct_nontrivial"] = len(keys)
		cov["rule"] = "one evaluation per rule instance (rule template with its slots filled from the current source); distinct = distinct obligation keys (rule + construct)"
		// samples: every non-discharged one and up to 3 per rule of the discharged ones
		var samples []core.Obligation
		per := map[string]int{}
		for _, o := range rep.Obligations {
			id := o.Rule
			if o.Verdict != core.Discharged {
				samples = append(samples, o)
				continue
			}
			if per[id] < 3 {
				per[id]++
				samples = append(samples, o)
			}
		}
		cov["samples"] = samples
		cov["notes"] = rep.Notes
	}
	if mut != nil {
		cov["self_test_mutants"] = mut
	}
	ev := core.Evidence{
		PropertyID: prop, Tier: tier, Seed: seed, Level: "other", Coverage: cov,
		Assumptions: rs.Assumptions, WallS: round(wall), Violations: nviol,
	}
	if err := core.WriteJSON(filepath.Join(vd, "evidence", prop+".json"), ev); err != nil {
		fmt.Fprintln(os.Stderr, "evidence:", err)
	}
}

// overlayFromDiff applies a unified diff to copies of the touched files and returns
// an overlay map for go/packages. The tree on disk is not modified.
func overlayFromDiff(repo, diff string) (map[string][]byte, error) {
	data, err := os.ReadFile(diff)
	if err != nil {
		return nil, err
	}
	var files []string
	for _, l := range strings.Split(string(data), "\n") {
		if strings.HasPrefix(l, "+++ b/") {
			files = append(files, strings.TrimSpace(strings.TrimPrefix(l, "+++ b/")))
		}
	}
	if len(files) == 0 {
		return nil, fmt.Errorf("no files in diff")
	}
	tmp, err := os.MkdirTemp("", "ergocheck-ov-")
	if err != nil {
		return nil, err
	}
	defer os.RemoveAll(tmp)
	for _, f := range files {
		src := filepath.Join(repo, f)
		b, err := os.ReadFile(src)
		if err != nil {
			if os.IsNotExist(err) {
				continue // new file
			}
			return nil, err
		}
		dst := filepath.Join(tmp, f)
		os.MkdirAll(filepath.Dir(dst), 0o755)
		if err := os.WriteFile(dst, b, 0o644); err != nil {
			return nil, err
		}
	}
	cmd := exec.Command("patch", "-p1", "-s", "-f", "--no-backup-if-mismatch", "-d", tmp)
	cmd.Stdin = bytes.NewReader(data)
	if outp, err := cmd.CombinedOutput(); err != nil {
		return nil, fmt.Errorf("diff does not apply: %s", strings.TrimSpace(string(outp)))
	}
	ov := map[string][]byte{}
	for _, f := range files {
		b, err := os.ReadFile(filepath.Join(tmp, f))
		if err != nil {
			return nil, err
		}
		ov[filepath.Join(repo, f)] = b
	}
	return ov, nil
}

// runMutants runs the checker self-test for a property: every seeded variant must be reported.
// Its result is evidence about the checker and never decides the verdict on /repo.
func runMutants(vd, prop string) map[string]any {
	var diffs []string
	for _, pat := range []string{filepath.Join(vd, "mutants", prop, "*.diff"), filepath.Join(vd, "seeded", "*", "patch.diff")} {
		m, _ := filepath.Glob(pat)
		for _, d := range m {
			if strings.Contains(d, "/seeded/") {
				meta := filepath.Join(filepath.Dir(d), "meta.json")
				b, err := os.ReadFile(meta)
				if err != nil {
					continue
				}
				var mm struct {
					Property string   `json:"property"`
					Props    []string `json:"properties"`
				}
				json.Unmarshal(b, &mm)
				hit := mm.Property == prop
				for _, p := range mm.Props {
					if p == prop {
						hit = true
					}
				}
				if !hit {
					continue
				}
			}
			diffs = append(diffs, d)
		}
	}
	sort.Strings(diffs)
	exe, _ := os.Executable()
	type res struct {
		Diff     string `json:"diff"`
		Result   string `json:"result"`
		Reported string `json:"reported,omitempty"`
	}
	results := make([]res, len(diffs))
	sem := make(chan struct{}, 6)
	var wg sync.WaitGroup
	for i, d := range diffs {
		wg.Add(1)
		go func(i int, d string) {
			defer wg.Done()
			sem <- struct{}{}
			defer func() { <-sem }()
			cmd := exec.Command(exe, "-p", prop, "-overlay-diff", d, "-no-evidence")
			cmd.Env = append(os.Environ(), "VERIF_DIR="+vd)
			outp, _ := cmd.CombinedOutput()
			code := cmd.ProcessState.ExitCode()
			r := res{Diff: strings.TrimPrefix(d, vd+"/")}
			switch {
			case code == 3:
				r.Result = "skipped (does not apply to the current tree)"
			case code == 1:
				r.Result = "detected"
				for _, l := range strings.Split(string(outp), "\n") {
					l = strings.TrimSpace(l)
					if strings.HasPrefix(l, "VIOLATED:") || strings.HasPrefix(l, "UNDECIDED:") {
						r.Reported = l
						break
					}
				}
			case code == 0:
				r.Result = "MISSED"
			default:
				r.Result = fmt.Sprintf("error exit=%d", code)
			}
			results[i] = r
		}(i, d)
	}
	wg.Wait()
	det, app := 0, 0
	for _, r := range results {
		if strings.HasPrefix(r.Result, "skipped") {
			continue
		}
		app++
		if r.Result == "detected" {
			det++
		}
	}
	// behaviour-preserving variants: the rule set must stay silent on them
	benign, _ := filepath.Glob(filepath.Join(vd, "benign", "*.diff"))
	sort.Strings(benign)
	type bres struct {
		Diff   string `json:"diff"`
		Result string `json:"result"`
	}
	var bresults []bres
	silent := 0
	for _, d := range benign {
		cmd := exec.Command(exe, "-p", prop, "-overlay-diff", d, "-no-evidence")
		cmd.Env = append(os.Environ(), "VERIF_DIR="+vd)
		cmd.CombinedOutput()
		code := cmd.ProcessState.ExitCode()
		br := bres{Diff: strings.TrimPrefix(d, vd+"/")}
		switch code {
		case 0:
			br.Result = "silent"
			silent++
		case 3:
			br.Result = "skipped (does not apply to the current tree)"
			silent++
		default:
			br.Result = "FALSE ALARM"
		}
		bresults = append(bresults, br)
	}
	fmt.Printf("  self-test: silent on %d/%d behaviour-preserving variants\n", silent, len(benign))
	fmt.Printf("  self-test: %d/%d seeded variants reported\n", det, app)
	for _, r := range results {
		if r.Result != "detected" {
			fmt.Printf("    %s: %s\n", r.Diff, r.Result)
		}
	}
	return map[string]any{"applied": app, "detected": det, "results": results, "benign_variants": bresults, "benign_silent": silent}
}

func doReplay(path string) int {
	b, err := os.ReadFile(path)
	if err != nil {
		fmt.Fprintln(os.Stderr, err)
		return 2
	}
	var r struct {
		Property string `json:"property"`
		Key      string `json:"key"`
	}
	if err := json.Unmarshal(b, &r); err != nil {
		fmt.Fprintln(os.Stderr, err)
		return 2
	}
	rs, ok := rules.Registry[r.Property]
	if !ok {
		return 2
	}
	prog, err := load.Load(load.Config{})
	if err != nil {
		fmt.Printf("cannot analyse the tree: %v\nVIOLATION property=%s replay=%s\n", err, r.Property, path)
		return 1
	}
	rep := core.NewReport(r.Property)
	rs.Run(prog, rep)
	kf, _ := core.LoadFindings(filepath.Join(verifDir(), "known_findings.json"))
	out := rep.Decide(kf)
	for _, o := range out.Violations {
		if o.Key == r.Key || r.Key == "floor" || r.Key == "load" {
			fmt.Printf("  %s: %s\n    rule: %s\n    instance: %s\n    at: %s in %s\n    why: %s\n", strings.ToUpper(string(o.Verdict)), o.Key, o.Rule, o.Instance, o.Pos, o.Func, o.Detail)
			fmt.Printf("VIOLATION property=%s replay=%s\n", r.Property, path)
			return 1
		}
	}
	for _, ff := range out.FloorFailures {
		if r.Key == "floor" {
			fmt.Println(ff)
			fmt.Printf("VIOLATION property=%s replay=%s\n", r.Property, path)
			return 1
		}
	}
	fmt.Printf("obligation %s holds on the current tree\n", r.Key)
	return 0
}
